import RProofs.Rep64Range
/-!
Bucket-level L2 theorems for the IN-PLACE operations of `roaring64` (`x.And(y)`, `x.Or(y)`, `x.Xor(y)`, `x.AndNot(y)`):
set semantics and well-formedness of `Rep64.iand / ior / ixor / iandNot`, and of the argument afterwards
(`Rep64.argAfter`).  `ixor` is concrete (it stores the static `roaring.Xor`, `Rep.xor2`); the other three are stated for
every instance `o : Ops32` whose in-place 32-bit functions are sound (`Ops32.SoundBin`).
Core Lean only; no `native_decide`, `bv_decide`, axioms.
-/
namespace RModel.Impl
open RModel RModel.BSet RModel.Driver ContOps RepOps R64Ops

/-- what the bucket-level theorems need from the in-place 32-bit `And / Or / AndNot` -/
structure Ops32.SoundBin (o : Ops32) : Prop where
  mem_iand : ∀ (a b : Rep) (y : Nat), a.wf = true → b.wf = true →
    mem (o.iand a b).toBSet y = (mem a.toBSet y && mem b.toBSet y)
  wf_iand : ∀ (a b : Rep), a.wf = true → b.wf = true → (o.iand a b).wf = true
  mem_ior : ∀ (a b : Rep) (y : Nat), a.wf = true → b.wf = true →
    mem (o.ior a b).toBSet y = (mem a.toBSet y || mem b.toBSet y)
  wf_ior : ∀ (a b : Rep), a.wf = true → b.wf = true → (o.ior a b).wf = true
  mem_iandNot : ∀ (a b : Rep) (y : Nat), a.wf = true → b.wf = true →
    mem (o.iandNot a b).toBSet y = (mem a.toBSet y && !mem b.toBSet y)
  wf_iandNot : ∀ (a b : Rep), a.wf = true → b.wf = true → (o.iandNot a b).wf = true

theorem optHas_nonEmpty (b : Bucket) (x : Nat) :
    optHas (nonEmpty b) x = (b.high == x / 4294967296 && mem b.bm.toBSet (x % 4294967296)) := by
  unfold nonEmpty
  cases he : b.bm.isEmptyGo with
  | true => simp only [if_true, optHas, mem_of_isEmptyGo he, Bool.and_false]
  | false => simp only [Bool.false_eq_true, if_false, optHas]

theorem appendTail_high (c : Bool) (b : Bucket) : (appendTail c b).high = b.high := rfl
theorem appendTail_set (c : Bool) (b : Bucket) : (appendTail c b).bm.toBSet = b.bm.toBSet := Rep.toBSet_cloneB _
theorem appendTail_ok (c : Bool) (b : Bucket) (h : BucketOk b) : BucketOk (appendTail c b) :=
  ⟨h.1, by simp only [appendTail, Rep.wf_cloneB]; exact h.2.1, by simp only [appendTail, Rep.isEmptyGo_cloneB]; exact h.2.2⟩

theorem insertClone_ok (b : Bucket) (h : BucketOk b) : BucketOk (insertClone b) :=
  ⟨h.1, by simp only [insertClone, Rep.wf_cloneB]; exact h.2.1, by simp only [insertClone, Rep.isEmptyGo_cloneB]; exact h.2.2⟩

theorem bucketsHas_insertClone_cons (b : Bucket) (t : List Bucket) (x : Nat) :
    bucketsHas (insertClone b :: t) x =
      ((b.high == x / 4294967296 && mem b.bm.toBSet (x % 4294967296)) || bucketsHas t x) := by
  rw [bucketsHas_cons]; simp only [insertClone, Rep.toBSet_cloneB]

/-! ### set semantics of the four in-place walks -/

theorem has_iandBuckets {o : Ops32} (ho : o.SoundBin) (a b : List Bucket) (ha : BucketsWf a) (hb : BucketsWf b) (x : Nat) :
    bucketsHas (iandBuckets o a b) x = (bucketsHas a x && bucketsHas b x) := by
  fun_induction iandBuckets o a b with
  | case1 b => rw [bucketsHas_nil, Bool.false_and]
  | case2 a h => rw [bucketsHas_nil, Bool.and_false]
  | case3 sa ta sb tb hlt ih =>
    rw [ih ha.tail hb, bucketsHas_cons sa]
    by_cases hk : sa.high = x / 4294967296
    · rw [bucketsHas_gt (hb.gt_of_lt_head hlt) (by omega)]
      simp
    · rw [beq_false_of_ne' hk]; simp
  | case4 sa ta sb tb hlt hlt2 ih =>
    have hlt' : sb.high < sa.high := by omega
    rw [ih ha hb.tail, bucketsHas_cons sb tb]
    by_cases hk : sb.high = x / 4294967296
    · rw [bucketsHas_gt (ha.gt_of_lt_head hlt') (by omega)]
      simp
    · rw [beq_false_of_ne' hk]; simp
  | case5 sa ta sb tb hlt hlt2 ih =>
    have hk : sb.high = sa.high := by omega
    rw [bucketsHas_consOpt, optHas_nonEmpty, ih ha.tail hb.tail, bucketsHas_cons sa, bucketsHas_cons sb, hk]
    simp only
    rw [ho.mem_iand _ _ _ (by rw [wf_writableBm]; exact ha.head.2.1) hb.head.2.1, toBSet_writableBm]
    by_cases hx : sa.high = x / 4294967296
    · rw [bucketsHas_gt ha.head_lt (by omega), bucketsHas_gt hb.head_lt (by omega), beq_true_of_eq' hx]
      simp
    · rw [beq_false_of_ne' hx]; simp

theorem has_iandNotBuckets {o : Ops32} (ho : o.SoundBin) (a b : List Bucket) (ha : BucketsWf a) (hb : BucketsWf b)
    (x : Nat) : bucketsHas (iandNotBuckets o a b) x = (bucketsHas a x && !bucketsHas b x) := by
  fun_induction iandNotBuckets o a b with
  | case1 b => rw [bucketsHas_nil, Bool.false_and]
  | case2 a h => rw [bucketsHas_nil]; simp
  | case3 sa ta sb tb hlt ih =>
    rw [bucketsHas_cons, ih ha.tail hb, bucketsHas_cons sa]
    by_cases hk : sa.high = x / 4294967296
    · rw [bucketsHas_gt (hb.gt_of_lt_head hlt) (by omega), bucketsHas_gt ha.head_lt (by omega)]
      simp
    · rw [beq_false_of_ne' hk]; simp
  | case4 sa ta sb tb hlt hlt2 ih =>
    have hlt' : sb.high < sa.high := by omega
    rw [ih ha hb.tail, bucketsHas_cons sb tb]
    by_cases hk : sb.high = x / 4294967296
    · rw [bucketsHas_gt (ha.gt_of_lt_head hlt') (by omega)]
      simp
    · rw [beq_false_of_ne' hk]; simp
  | case5 sa ta sb tb hlt hlt2 ih =>
    have hk : sb.high = sa.high := by omega
    rw [bucketsHas_consOpt, optHas_nonEmpty, ih ha.tail hb.tail, bucketsHas_cons sa, bucketsHas_cons sb, hk]
    simp only
    rw [ho.mem_iandNot _ _ _ (by rw [wf_writableBm]; exact ha.head.2.1) hb.head.2.1, toBSet_writableBm]
    by_cases hx : sa.high = x / 4294967296
    · rw [bucketsHas_gt ha.head_lt (by omega), bucketsHas_gt hb.head_lt (by omega), beq_true_of_eq' hx]
      simp
    · rw [beq_false_of_ne' hx]; simp

theorem has_iorBuckets {o : Ops32} (ho : o.SoundBin) (c : Bool) (a b : List Bucket) (ha : BucketsWf a) (hb : BucketsWf b)
    (x : Nat) : bucketsHas (iorBuckets o c a b) x = (bucketsHas a x || bucketsHas b x) := by
  fun_induction iorBuckets o c a b with
  | case1 b => rw [bucketsHas_map_out (appendTail_high c) (appendTail_set c), bucketsHas_nil, Bool.false_or]
  | case2 a h => rw [bucketsHas_nil, Bool.or_false]
  | case3 sa ta sb tb hlt ih =>
    rw [bucketsHas_cons, ih ha.tail hb, bucketsHas_cons sa, Bool.or_assoc]
  | case4 sa ta sb tb hlt hlt2 ih =>
    rw [bucketsHas_insertClone_cons, ih ha hb.tail, bucketsHas_cons sb tb]
    cases (sb.high == x / 4294967296 && mem sb.bm.toBSet (x % 4294967296)) <;> cases bucketsHas (sa :: ta) x <;> simp
  | case5 sa ta sb tb hlt hlt2 ih =>
    have hk : sb.high = sa.high := by omega
    rw [bucketsHas_cons, ih ha.tail hb.tail, bucketsHas_cons sa, bucketsHas_cons sb, hk]
    simp only
    rw [ho.mem_ior _ _ _ (by rw [wf_writableBm]; exact ha.head.2.1) hb.head.2.1, toBSet_writableBm]
    cases (sa.high == x / 4294967296) <;> cases mem sa.bm.toBSet (x % 4294967296) <;>
      cases mem sb.bm.toBSet (x % 4294967296) <;> cases bucketsHas ta x <;> cases bucketsHas tb x <;> rfl

theorem has_ixorBuckets (c : Bool) (a b : List Bucket) (ha : BucketsWf a) (hb : BucketsWf b) (x : Nat) :
    bucketsHas (ixorBuckets c a b) x = (bucketsHas a x != bucketsHas b x) := by
  fun_induction ixorBuckets c a b with
  | case1 b => rw [bucketsHas_map_out (appendTail_high c) (appendTail_set c), bucketsHas_nil]; simp
  | case2 a h => rw [bucketsHas_nil]; simp
  | case3 sa ta sb tb hlt ih =>
    rw [bucketsHas_cons, ih ha.tail hb, bucketsHas_cons sa]
    by_cases hk : sa.high = x / 4294967296
    · rw [bucketsHas_gt (hb.gt_of_lt_head hlt) (by omega), bucketsHas_gt ha.head_lt (by omega)]
      simp
    · rw [beq_false_of_ne' hk]; simp
  | case4 sa ta sb tb hlt hlt2 ih =>
    have hlt' : sb.high < sa.high := by omega
    rw [bucketsHas_insertClone_cons, ih ha hb.tail, bucketsHas_cons sb tb]
    by_cases hk : sb.high = x / 4294967296
    · rw [bucketsHas_gt (ha.gt_of_lt_head hlt') (by omega), bucketsHas_gt hb.head_lt (by omega)]
      simp
    · rw [beq_false_of_ne' hk]; simp
  | case5 sa ta sb tb hlt hlt2 ih =>
    have hk : sb.high = sa.high := by omega
    rw [bucketsHas_consOpt, optHas_nonEmpty, ih ha.tail hb.tail, bucketsHas_cons sa, bucketsHas_cons sb, hk]
    simp only
    rw [Rep.mem_xor2 _ _ ha.head.2.1 hb.head.2.1]
    by_cases hx : sa.high = x / 4294967296
    · rw [bucketsHas_gt ha.head_lt (by omega), bucketsHas_gt hb.head_lt (by omega), beq_true_of_eq' hx]
      simp
    · rw [beq_false_of_ne' hx]; simp

/-! ### the results are well-formed -/

theorem nonEmpty_ok {k : Nat} {bm : Rep} {f : Bool} {b' : Bucket} (hk : k < 4294967296) (hw : bm.wf = true)
    (h : nonEmpty { high := k, bm := bm, flag := f } = some b') : BucketOk b' ∧ b'.high = k := by
  obtain ⟨rfl, hne⟩ := nonEmpty_some h
  exact ⟨⟨hk, hw, hne⟩, rfl⟩

theorem gt_map_out {out : Bucket → Bucket} (h1 : ∀ b, (out b).high = b.high) {k : Nat} {l : List Bucket}
    (h : ∀ s ∈ l, k < s.high) : ∀ s ∈ l.map out, k < s.high := by
  intro s hs
  obtain ⟨b, hb, rfl⟩ := List.mem_map.mp hs
  rw [h1]; exact h b hb

theorem gt_iandBuckets (o : Ops32) (k : Nat) (a b : List Bucket) (ha : ∀ s ∈ a, k < s.high) :
    ∀ s ∈ iandBuckets o a b, k < s.high := by
  fun_induction iandBuckets o a b with
  | case1 b => intro s hs; cases hs
  | case2 a h => intro s hs; cases hs
  | case3 sa ta sb tb hlt ih => exact ih (gt_tail64 ha)
  | case4 sa ta sb tb hlt hlt2 ih => exact ih ha
  | case5 sa ta sb tb hlt hlt2 ih =>
    intro s hs
    rcases mem_consOpt hs with h' | h'
    · obtain ⟨rfl, _⟩ := nonEmpty_some h'; exact ha sa (by simp)
    · exact ih (gt_tail64 ha) s h'

theorem gt_iandNotBuckets (o : Ops32) (k : Nat) (a b : List Bucket) (ha : ∀ s ∈ a, k < s.high) :
    ∀ s ∈ iandNotBuckets o a b, k < s.high := by
  fun_induction iandNotBuckets o a b with
  | case1 b => intro s hs; cases hs
  | case2 a h => exact ha
  | case3 sa ta sb tb hlt ih =>
    intro s hs
    rcases List.mem_cons.mp hs with h | h'
    · rw [h]; exact ha sa (by simp)
    · exact ih (gt_tail64 ha) s h'
  | case4 sa ta sb tb hlt hlt2 ih => exact ih ha
  | case5 sa ta sb tb hlt hlt2 ih =>
    intro s hs
    rcases mem_consOpt hs with h' | h'
    · obtain ⟨rfl, _⟩ := nonEmpty_some h'; exact ha sa (by simp)
    · exact ih (gt_tail64 ha) s h'

theorem gt_iorBuckets (o : Ops32) (c : Bool) (k : Nat) (a b : List Bucket) (ha : ∀ s ∈ a, k < s.high)
    (hb : ∀ s ∈ b, k < s.high) : ∀ s ∈ iorBuckets o c a b, k < s.high := by
  fun_induction iorBuckets o c a b with
  | case1 b => exact gt_map_out (appendTail_high c) hb
  | case2 a h => exact ha
  | case3 sa ta sb tb hlt ih =>
    intro s hs
    rcases List.mem_cons.mp hs with h | h'
    · rw [h]; exact ha sa (by simp)
    · exact ih (gt_tail64 ha) hb s h'
  | case4 sa ta sb tb hlt hlt2 ih =>
    intro s hs
    rcases List.mem_cons.mp hs with h | h'
    · rw [h]; exact hb sb (by simp)
    · exact ih ha (gt_tail64 hb) s h'
  | case5 sa ta sb tb hlt hlt2 ih =>
    intro s hs
    rcases List.mem_cons.mp hs with h | h'
    · rw [h]; exact ha sa (by simp)
    · exact ih (gt_tail64 ha) (gt_tail64 hb) s h'

theorem gt_ixorBuckets (c : Bool) (k : Nat) (a b : List Bucket) (ha : ∀ s ∈ a, k < s.high)
    (hb : ∀ s ∈ b, k < s.high) : ∀ s ∈ ixorBuckets c a b, k < s.high := by
  fun_induction ixorBuckets c a b with
  | case1 b => exact gt_map_out (appendTail_high c) hb
  | case2 a h => exact ha
  | case3 sa ta sb tb hlt ih =>
    intro s hs
    rcases List.mem_cons.mp hs with h | h'
    · rw [h]; exact ha sa (by simp)
    · exact ih (gt_tail64 ha) hb s h'
  | case4 sa ta sb tb hlt hlt2 ih =>
    intro s hs
    rcases List.mem_cons.mp hs with h | h'
    · rw [h]; exact hb sb (by simp)
    · exact ih ha (gt_tail64 hb) s h'
  | case5 sa ta sb tb hlt hlt2 ih =>
    intro s hs
    rcases mem_consOpt hs with h' | h'
    · obtain ⟨rfl, _⟩ := nonEmpty_some h'; exact ha sa (by simp)
    · exact ih (gt_tail64 ha) (gt_tail64 hb) s h'

theorem wf_iandBuckets {o : Ops32} (ho : o.SoundBin) (a b : List Bucket) (ha : BucketsWf a) (hb : BucketsWf b) :
    BucketsWf (iandBuckets o a b) := by
  fun_induction iandBuckets o a b with
  | case1 b => exact BucketsWf.nil
  | case2 a h => exact BucketsWf.nil
  | case3 sa ta sb tb hlt ih => exact ih ha.tail hb
  | case4 sa ta sb tb hlt hlt2 ih => exact ih ha hb.tail
  | case5 sa ta sb tb hlt hlt2 ih =>
    exact wf_consOpt (k := sa.high)
      (fun b' hb' => nonEmpty_ok ha.head.1 (ho.wf_iand _ _ (by rw [wf_writableBm]; exact ha.head.2.1) hb.head.2.1) hb')
      (ih ha.tail hb.tail) (gt_iandBuckets o _ _ _ ha.head_lt)

theorem wf_iandNotBuckets {o : Ops32} (ho : o.SoundBin) (a b : List Bucket) (ha : BucketsWf a) (hb : BucketsWf b) :
    BucketsWf (iandNotBuckets o a b) := by
  fun_induction iandNotBuckets o a b with
  | case1 b => exact BucketsWf.nil
  | case2 a h => exact ha
  | case3 sa ta sb tb hlt ih =>
    exact BucketsWf.cons ha.head (ih ha.tail hb) (gt_iandNotBuckets o _ _ _ ha.head_lt)
  | case4 sa ta sb tb hlt hlt2 ih => exact ih ha hb.tail
  | case5 sa ta sb tb hlt hlt2 ih =>
    exact wf_consOpt (k := sa.high)
      (fun b' hb' => nonEmpty_ok ha.head.1 (ho.wf_iandNot _ _ (by rw [wf_writableBm]; exact ha.head.2.1) hb.head.2.1) hb')
      (ih ha.tail hb.tail) (gt_iandNotBuckets o _ _ _ ha.head_lt)

theorem isEmptyGo_ior {o : Ops32} (ho : o.SoundBin) (a b : Rep) (ha : a.wf = true) (hb : b.wf = true)
    (hne : a.isEmptyGo = false) : (o.ior a b).isEmptyGo = false := by
  cases hh : (o.ior a b).isEmptyGo with
  | false => rfl
  | true =>
    obtain ⟨y, hy⟩ := exists_mem_of_wf ha hne
    have h1 := mem_of_isEmptyGo hh y
    rw [ho.mem_ior a b y ha hb, hy] at h1
    cases h1

theorem wf_iorBuckets {o : Ops32} (ho : o.SoundBin) (c : Bool) (a b : List Bucket) (ha : BucketsWf a) (hb : BucketsWf b) :
    BucketsWf (iorBuckets o c a b) := by
  fun_induction iorBuckets o c a b with
  | case1 b => exact wf_map_out (appendTail_high c) (appendTail_ok c) _ hb
  | case2 a h => exact ha
  | case3 sa ta sb tb hlt ih =>
    exact BucketsWf.cons ha.head (ih ha.tail hb) (gt_iorBuckets o c _ _ _ ha.head_lt (hb.gt_of_lt_head hlt))
  | case4 sa ta sb tb hlt hlt2 ih =>
    have hlt' : sb.high < sa.high := by omega
    exact BucketsWf.cons (insertClone_ok sb hb.head) (ih ha hb.tail)
      (gt_iorBuckets o c _ _ _ (ha.gt_of_lt_head hlt') hb.head_lt)
  | case5 sa ta sb tb hlt hlt2 ih =>
    have hk : sb.high = sa.high := by omega
    have hw : (writableBm sa).wf = true := by rw [wf_writableBm]; exact ha.head.2.1
    have hne : (writableBm sa).isEmptyGo = false := by
      unfold writableBm; split
      · rw [Rep.isEmptyGo_cloneB]; exact ha.head.2.2
      · exact ha.head.2.2
    refine BucketsWf.cons ⟨ha.head.1, ho.wf_ior _ _ hw hb.head.2.1, isEmptyGo_ior ho _ _ hw hb.head.2.1 hne⟩
      (ih ha.tail hb.tail)
      (gt_iorBuckets o c _ _ _ ha.head_lt (fun s hs => by have := hb.head_lt s hs; simp only; omega))

theorem wf_ixorBuckets (c : Bool) (a b : List Bucket) (ha : BucketsWf a) (hb : BucketsWf b) :
    BucketsWf (ixorBuckets c a b) := by
  fun_induction ixorBuckets c a b with
  | case1 b => exact wf_map_out (appendTail_high c) (appendTail_ok c) _ hb
  | case2 a h => exact ha
  | case3 sa ta sb tb hlt ih =>
    exact BucketsWf.cons ha.head (ih ha.tail hb) (gt_ixorBuckets c _ _ _ ha.head_lt (hb.gt_of_lt_head hlt))
  | case4 sa ta sb tb hlt hlt2 ih =>
    have hlt' : sb.high < sa.high := by omega
    exact BucketsWf.cons (insertClone_ok sb hb.head) (ih ha hb.tail)
      (gt_ixorBuckets c _ _ _ (ha.gt_of_lt_head hlt') hb.head_lt)
  | case5 sa ta sb tb hlt hlt2 ih =>
    have hk : sb.high = sa.high := by omega
    exact wf_consOpt (k := sa.high)
      (fun b' hb' => nonEmpty_ok ha.head.1 (Rep.wf_xor2 _ _ ha.head.2.1 hb.head.2.1) hb')
      (ih ha.tail hb.tail)
      (gt_ixorBuckets c _ _ _ ha.head_lt (fun s hs => by have := hb.head_lt s hs; omega))

theorem Rep64.wf_iand {o : Ops32} (ho : o.SoundBin) (x y : Rep64) (hx : x.wf = true) (hy : y.wf = true) :
    (Rep64.iand o x y).wf = true :=
  (bucketsWf_iff _).mpr (wf_iandBuckets ho _ _ ((bucketsWf_iff x).mp hx) ((bucketsWf_iff y).mp hy))
theorem Rep64.wf_ior {o : Ops32} (ho : o.SoundBin) (x y : Rep64) (hx : x.wf = true) (hy : y.wf = true) :
    (Rep64.ior o x y).wf = true :=
  (bucketsWf_iff _).mpr (wf_iorBuckets ho _ _ _ ((bucketsWf_iff x).mp hx) ((bucketsWf_iff y).mp hy))
theorem Rep64.wf_ixor (x y : Rep64) (hx : x.wf = true) (hy : y.wf = true) : (Rep64.ixor x y).wf = true :=
  (bucketsWf_iff _).mpr (wf_ixorBuckets _ _ _ ((bucketsWf_iff x).mp hx) ((bucketsWf_iff y).mp hy))
theorem Rep64.wf_iandNot {o : Ops32} (ho : o.SoundBin) (x y : Rep64) (hx : x.wf = true) (hy : y.wf = true) :
    (Rep64.iandNot o x y).wf = true :=
  (bucketsWf_iff _).mpr (wf_iandNotBuckets ho _ _ ((bucketsWf_iff x).mp hx) ((bucketsWf_iff y).mp hy))

/-! ### set semantics -/

/-- `x.And(y)`: the receiver afterwards denotes the intersection -/
theorem Rep64.toBSet_iand {o : Ops32} (ho : o.SoundBin) (x y : Rep64) (hx : x.wf = true) (hy : y.wf = true) :
    (Rep64.iand o x y).toBSet = BSet.inter x.toBSet y.toBSet := by
  have hwx := (bucketsWf_iff x).mp hx
  have hwy := (bucketsWf_iff y).mp hy
  refine canon_ext_sinc _ _ (sinc_rep64 _) (sinc_combine _ _ _ _ _ (sinc_rep64 x) (sinc_rep64 y)) (fun v => ?_)
  rw [mem_inter _ _ (sinc_rep64 x) (sinc_rep64 y), mem_rep64_buckets _ (wf_iandBuckets ho _ _ hwx hwy).bounded,
    mem_rep64_buckets x hwx.bounded, mem_rep64_buckets y hwy.bounded]
  exact has_iandBuckets ho _ _ hwx hwy v

/-- `x.Or(y)`: the receiver afterwards denotes the union -/
theorem Rep64.toBSet_ior {o : Ops32} (ho : o.SoundBin) (x y : Rep64) (hx : x.wf = true) (hy : y.wf = true) :
    (Rep64.ior o x y).toBSet = BSet.union x.toBSet y.toBSet := by
  have hwx := (bucketsWf_iff x).mp hx
  have hwy := (bucketsWf_iff y).mp hy
  refine canon_ext_sinc _ _ (sinc_rep64 _) (sinc_combine _ _ _ _ _ (sinc_rep64 x) (sinc_rep64 y)) (fun v => ?_)
  rw [mem_union _ _ (sinc_rep64 x) (sinc_rep64 y), mem_rep64_buckets _ (wf_iorBuckets ho _ _ _ hwx hwy).bounded,
    mem_rep64_buckets x hwx.bounded, mem_rep64_buckets y hwy.bounded]
  exact has_iorBuckets ho _ _ _ hwx hwy v

/-- `x.Xor(y)` (two different objects): the receiver afterwards denotes the symmetric difference -/
theorem Rep64.toBSet_ixor (x y : Rep64) (hx : x.wf = true) (hy : y.wf = true) :
    (Rep64.ixor x y).toBSet = BSet.xor x.toBSet y.toBSet := by
  have hwx := (bucketsWf_iff x).mp hx
  have hwy := (bucketsWf_iff y).mp hy
  refine canon_ext_sinc _ _ (sinc_rep64 _) (sinc_combine _ _ _ _ _ (sinc_rep64 x) (sinc_rep64 y)) (fun v => ?_)
  rw [mem_xor _ _ (sinc_rep64 x) (sinc_rep64 y), mem_rep64_buckets _ (wf_ixorBuckets _ _ _ hwx hwy).bounded,
    mem_rep64_buckets x hwx.bounded, mem_rep64_buckets y hwy.bounded]
  exact has_ixorBuckets _ _ _ hwx hwy v

/-- `x.AndNot(y)`: the receiver afterwards denotes the difference -/
theorem Rep64.toBSet_iandNot {o : Ops32} (ho : o.SoundBin) (x y : Rep64) (hx : x.wf = true) (hy : y.wf = true) :
    (Rep64.iandNot o x y).toBSet = BSet.diff x.toBSet y.toBSet := by
  have hwx := (bucketsWf_iff x).mp hx
  have hwy := (bucketsWf_iff y).mp hy
  refine canon_ext_sinc _ _ (sinc_rep64 _) (sinc_combine _ _ _ _ _ (sinc_rep64 x) (sinc_rep64 y)) (fun v => ?_)
  rw [mem_diff _ _ (sinc_rep64 x) (sinc_rep64 y), mem_rep64_buckets _ (wf_iandNotBuckets ho _ _ hwx hwy).bounded,
    mem_rep64_buckets x hwx.bounded, mem_rep64_buckets y hwy.bounded]
  exact has_iandNotBuckets ho _ _ hwx hwy v

/-! ### the argument afterwards: same set, still well-formed (flags only) -/

theorem argAfter_eq (c : Bool) (xs : List Bucket) (b : Bucket) :
    ∃ (d : Bool) (f : Bool),
      (if xs.any (·.high == b.high) then b
       else if xs.all (·.high < b.high) then ({ high := b.high, bm := b.bm.cloneSrcB, flag := c || b.flag } : Bucket)
       else { high := b.high, bm := b.bm.cloneSrcB, flag := b.flag }) =
      if d = true then b else { high := b.high, bm := b.bm.cloneSrcB, flag := f } := by
  by_cases h1 : xs.any (·.high == b.high) = true
  · exact ⟨true, false, by rw [if_pos h1]; rfl⟩
  · by_cases h2 : xs.all (·.high < b.high) = true
    · exact ⟨false, c || b.flag, by rw [if_neg h1, if_pos h2]; rfl⟩
    · exact ⟨false, b.flag, by rw [if_neg h1, if_neg h2]; rfl⟩

theorem Rep64.wf_argAfter (x y : Rep64) (hy : y.wf = true) : (Rep64.argAfter x y).wf = true := by
  have hw := (bucketsWf_iff y).mp hy
  refine (bucketsWf_iff _).mpr ?_
  unfold Rep64.argAfter R64Ops.argAfter
  refine wf_map_out (fun b => ?_) (fun b hb => ?_) _ hw
  · obtain ⟨d, f, h⟩ := argAfter_eq (x.cow && y.cow) x.buckets b
    rw [h]; cases d <;> rfl
  · obtain ⟨d, f, h⟩ := argAfter_eq (x.cow && y.cow) x.buckets b
    rw [h]; cases d
    · exact ⟨hb.1, by simp only [Bool.false_eq_true, if_false]; rw [Rep.wf_cloneSrcB]; exact hb.2.1,
        by simp only [Bool.false_eq_true, if_false]; rw [Rep.isEmptyGo_cloneSrcB]; exact hb.2.2⟩
    · exact hb

/-- an in-place operation leaves the set its argument denotes unchanged -/
theorem Rep64.toBSet_argAfter (x y : Rep64) (hy : y.wf = true) : (Rep64.argAfter x y).toBSet = y.toBSet := by
  have hw := (bucketsWf_iff y).mp hy
  have hwf := (bucketsWf_iff _).mp (Rep64.wf_argAfter x y hy)
  refine canon_ext_sinc _ _ (sinc_rep64 _) (sinc_rep64 _) (fun v => ?_)
  rw [mem_rep64_buckets _ hwf.bounded, mem_rep64_buckets y hw.bounded]
  unfold Rep64.argAfter R64Ops.argAfter
  refine bucketsHas_map_out (fun b => ?_) (fun b => ?_) _ v
  · obtain ⟨d, f, h⟩ := argAfter_eq (x.cow && y.cow) x.buckets b
    rw [h]; cases d <;> rfl
  · obtain ⟨d, f, h⟩ := argAfter_eq (x.cow && y.cow) x.buckets b
    rw [h]; cases d
    · exact Rep.toBSet_cloneSrcB _
    · rfl

end RModel.Impl
