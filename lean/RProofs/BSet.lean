import RModel.Spec.BSet
namespace RModel.BSet

@[simp] theorem mem_nil (x : Nat) : mem [] x = false := rfl

theorem mem_cons (b : Nat) (t : BSet) (x : Nat) :
    mem (b :: t) x = if x < b then false else !(mem t x) := rfl

theorem mem_of_lt_all : ∀ (s : BSet) (x : Nat), (∀ b ∈ s, x < b) → mem s x = false
  | [], _, _ => rfl
  | b :: t, x, h => by simp [mem_cons, h b (by simp)]

theorem mem_tail_of_lt {x : Nat} {a : BSet} {z : Nat} (h : (x :: a).Pairwise (· < ·)) (hz : z < x) :
    mem a z = false := by
  apply mem_of_lt_all
  intro b hb
  have := (List.pairwise_cons.mp h).1 b hb
  omega

theorem mem_emit_ge (x' x : Nat) (R : BSet) (p q A : Bool) (h : ¬ x < x') (hR : mem R x = (A != p)) :
    mem (emit (p != q) x' R) x = (A != q) := by
  cases p <;> cases q <;> cases A <;> simp_all [mem_cons, emit]

theorem mem_emit_lt (x' x : Nat) (R : BSet) (c : Bool) (h : x < x') (hR : mem R x = false) :
    mem (emit c x' R) x = false := by
  cases c <;> simp_all [mem_cons, emit]

theorem bne_not_swap (a m : Bool) : (a != !m) = (!a != m) := by cases a <;> cases m <;> rfl

theorem emit_subset (c : Bool) (x : Nat) (r : BSet) : ∀ z ∈ emit c x r, z = x ∨ z ∈ r := by
  cases c <;> simp [emit] <;> grind

theorem combine_subset (f : Bool → Bool → Bool) (a b : BSet) (ia ib : Bool) :
    ∀ z ∈ combine f a b ia ib, z ∈ a ∨ z ∈ b := by
  fun_induction combine f a b ia ib <;> intro z hz
  · simp_all
  all_goals
    have := emit_subset _ _ _ z hz
    grind


theorem mem_combine (f : Bool → Bool → Bool) (a b : BSet) (ia ib : Bool)
    (ha : a.Pairwise (· < ·)) (hb : b.Pairwise (· < ·)) (x : Nat) :
    mem (combine f a b ia ib) x = ((f (ia != mem a x) (ib != mem b x)) != f ia ib) := by
  fun_induction combine f a b ia ib
  · simp
  · rename_i x' a ia ib ih
    have ih := ih (List.pairwise_cons.mp ha).2 hb
    by_cases hz : x < x'
    · have h1 := mem_tail_of_lt ha hz
      rw [mem_emit_lt _ _ _ _ hz (by simp [ih, h1])]
      simp [mem_cons, hz]
    · rw [mem_emit_ge x' x _ _ _ _ hz ih]
      simp [mem_cons, hz]
  · rename_i y' b ia ib ih
    have ih := ih ha (List.pairwise_cons.mp hb).2
    by_cases hz : x < y'
    · have h1 := mem_tail_of_lt hb hz
      rw [mem_emit_lt _ _ _ _ hz (by simp [ih, h1])]
      simp [mem_cons, hz]
    · rw [mem_emit_ge y' x _ _ _ _ hz ih]
      simp [mem_cons, hz]
  · rename_i x' a y' b ia ib hxy ih
    have ih := ih (List.pairwise_cons.mp ha).2 hb
    by_cases hz : x < x'
    · have h1 := mem_tail_of_lt ha hz
      have h2 : x < y' := by omega
      rw [mem_emit_lt _ _ _ _ hz (by simp [ih, h1, mem_cons, h2])]
      simp [mem_cons, hz, h2]
    · rw [mem_emit_ge x' x _ _ _ _ hz ih]
      simp [mem_cons, hz]
  · rename_i x' a y' b ia ib hxy hyx ih
    have ih := ih ha (List.pairwise_cons.mp hb).2
    by_cases hz : x < y'
    · have h1 := mem_tail_of_lt hb hz
      have h2 : x < x' := by omega
      rw [mem_emit_lt _ _ _ _ hz (by simp [ih, h1, mem_cons, h2])]
      simp [mem_cons, hz, h2]
    · rw [mem_emit_ge y' x _ _ _ _ hz ih]
      simp [mem_cons, hz]
  · rename_i x' a y' b ia ib hxy hyx ih
    have ih := ih (List.pairwise_cons.mp ha).2 (List.pairwise_cons.mp hb).2
    have hxy' : y' = x' := by omega
    subst hxy'
    by_cases hz : x < y'
    · have h1 := mem_tail_of_lt ha hz
      have h2 := mem_tail_of_lt hb hz
      rw [mem_emit_lt _ _ _ _ hz (by simp [ih, h1, h2])]
      simp [mem_cons, hz]
    · rw [mem_emit_ge y' x _ _ _ _ hz ih]
      simp [mem_cons, hz]


/-! ### canonical form is preserved -/

abbrev SInc (s : BSet) : Prop := s.Pairwise (· < ·)

theorem emit_lb (c : Bool) (x : Nat) (r : BSet) (n : Nat) (hx : n ≤ x) (hr : ∀ z ∈ r, n ≤ z) :
    ∀ z ∈ emit c x r, n ≤ z := by
  intro z hz
  rcases emit_subset c x r z hz with h | h
  · omega
  · exact hr z h

theorem sinc_emit (c : Bool) (x : Nat) (r : BSet) (hr : SInc r) (hx : ∀ z ∈ r, x < z) :
    SInc (emit c x r) := by
  cases c <;> simp [emit, SInc, hr]
  exact hx

theorem sinc_combine (f : Bool → Bool → Bool) (a b : BSet) (ia ib : Bool)
    (ha : SInc a) (hb : SInc b) : SInc (combine f a b ia ib) := by
  fun_induction combine f a b ia ib
  · simp [SInc]
  · rename_i x' a ia ib ih
    have hp := List.pairwise_cons.mp ha
    apply sinc_emit _ _ _ (ih hp.2 hb)
    intro z hz
    rcases combine_subset _ _ _ _ _ z hz with h | h
    · exact hp.1 z h
    · simp at h
  · rename_i y' b ia ib ih
    have hp := List.pairwise_cons.mp hb
    apply sinc_emit _ _ _ (ih ha hp.2)
    intro z hz
    rcases combine_subset _ _ _ _ _ z hz with h | h
    · simp at h
    · exact hp.1 z h
  · rename_i x' a y' b ia ib hxy ih
    have hp := List.pairwise_cons.mp ha
    have hq := List.pairwise_cons.mp hb
    apply sinc_emit _ _ _ (ih hp.2 hb)
    intro z hz
    rcases combine_subset _ _ _ _ _ z hz with h | h
    · exact hp.1 z h
    · rcases List.mem_cons.mp h with h | h
      · omega
      · have := hq.1 z h; omega
  · rename_i x' a y' b ia ib hxy hyx ih
    have hp := List.pairwise_cons.mp ha
    have hq := List.pairwise_cons.mp hb
    apply sinc_emit _ _ _ (ih ha hq.2)
    intro z hz
    rcases combine_subset _ _ _ _ _ z hz with h | h
    · rcases List.mem_cons.mp h with h | h
      · omega
      · have := hp.1 z h; omega
    · exact hq.1 z h
  · rename_i x' a y' b ia ib hxy hyx ih
    have hp := List.pairwise_cons.mp ha
    have hq := List.pairwise_cons.mp hb
    apply sinc_emit _ _ _ (ih hp.2 hq.2)
    intro z hz
    rcases combine_subset _ _ _ _ _ z hz with h | h
    · exact hp.1 z h
    · have := hq.1 z h; omega

/-- beyond the last boundary membership is the parity of the length -/
theorem mem_of_ge_all : ∀ (s : BSet) (x : Nat), (∀ b ∈ s, b ≤ x) → mem s x = (s.length % 2 == 1)
  | [], _, _ => by simp
  | b :: t, x, h => by
      have hb : ¬ x < b := by have := h b (by simp); omega
      have ih := mem_of_ge_all t x (fun c hc => h c (by simp [hc]))
      simp only [mem_cons, hb, if_false, ih, List.length_cons]
      rcases Nat.mod_two_eq_zero_or_one t.length with h0 | h0 <;>
        simp [Nat.add_mod, h0]

theorem canon_combine (U : Nat) (f : Bool → Bool → Bool) (hf : f false false = false) (a b : BSet)
    (ha : Canon U a) (hb : Canon U b) : Canon U (combine f a b false false) := by
  refine ⟨sinc_combine f a b _ _ ha.1 hb.1, ?_, ?_⟩
  · intro z hz
    rcases combine_subset _ _ _ _ _ z hz with h | h
    · exact ha.2.1 z h
    · exact hb.2.1 z h
  · have hm := mem_combine f a b false false ha.1 hb.1 U
    have h1 := mem_of_ge_all a U ha.2.1
    have h2 := mem_of_ge_all b U hb.2.1
    have h3 := mem_of_ge_all (combine f a b false false) U (by
      intro z hz
      rcases combine_subset _ _ _ _ _ z hz with h | h
      · exact ha.2.1 z h
      · exact hb.2.1 z h)
    rw [h3, h1, h2, ha.2.2, hb.2.2] at hm
    simp [hf] at hm
    omega

/-! ### uniqueness of canonical forms -/

theorem mem_tail_head {c : Nat} {t : BSet} (h : SInc (c :: t)) : mem t c = false :=
  mem_of_lt_all t c (fun b hb => (List.pairwise_cons.mp h).1 b hb)

theorem mem_head {c : Nat} {t : BSet} (h : SInc (c :: t)) : mem (c :: t) c = true := by
  simp [mem_cons, mem_tail_head h]

theorem canon_ext_sinc : ∀ (s t : BSet), SInc s → SInc t → (∀ x, mem s x = mem t x) → s = t
  | [], [], _, _, _ => rfl
  | [], c :: t, _, ht, h => by
      have := h c
      rw [mem_head ht] at this
      simp at this
  | b :: s, [], hs, _, h => by
      have := h b
      rw [mem_head hs] at this
      simp at this
  | b :: s, c :: t, hs, ht, h => by
      have hbc : b = c := by
        rcases Nat.lt_trichotomy b c with hlt | heq | hgt
        · have := h b
          rw [mem_head hs, mem_cons] at this
          simp [hlt] at this
        · exact heq
        · have := h c
          rw [mem_head ht, mem_cons] at this
          simp [hgt] at this
      subst hbc
      congr 1
      apply canon_ext_sinc s t (List.pairwise_cons.mp hs).2 (List.pairwise_cons.mp ht).2
      intro x
      by_cases hx : x < b
      · rw [mem_of_lt_all s x (fun z hz => by have := (List.pairwise_cons.mp hs).1 z hz; omega),
            mem_of_lt_all t x (fun z hz => by have := (List.pairwise_cons.mp ht).1 z hz; omega)]
      · have := h x
        simp only [mem_cons, hx, if_false] at this
        cases hs' : mem s x <;> cases ht' : mem t x <;> simp_all

/-- Two canonical sets with the same members are the same list: comparing printed dumps IS set equality. -/
theorem canon_ext (U : Nat) (s t : BSet) (hs : Canon U s) (ht : Canon U t)
    (h : ∀ x, mem s x = mem t x) : s = t :=
  canon_ext_sinc s t hs.1 ht.1 h


/-! ### the Boolean operations -/

theorem mem_union (a b : BSet) (ha : SInc a) (hb : SInc b) (x : Nat) :
    mem (union a b) x = (mem a x || mem b x) := by
  simp [union, mem_combine _ _ _ _ _ ha hb]

theorem mem_inter (a b : BSet) (ha : SInc a) (hb : SInc b) (x : Nat) :
    mem (inter a b) x = (mem a x && mem b x) := by
  simp [inter, mem_combine _ _ _ _ _ ha hb]

theorem mem_xor (a b : BSet) (ha : SInc a) (hb : SInc b) (x : Nat) :
    mem (xor a b) x = (mem a x != mem b x) := by
  simp [xor, mem_combine _ _ _ _ _ ha hb]

theorem mem_diff (a b : BSet) (ha : SInc a) (hb : SInc b) (x : Nat) :
    mem (diff a b) x = (mem a x && !mem b x) := by
  simp [diff, mem_combine _ _ _ _ _ ha hb]

theorem canon_union (U : Nat) (a b : BSet) (ha : Canon U a) (hb : Canon U b) : Canon U (union a b) :=
  canon_combine U _ rfl a b ha hb
theorem canon_inter (U : Nat) (a b : BSet) (ha : Canon U a) (hb : Canon U b) : Canon U (inter a b) :=
  canon_combine U _ rfl a b ha hb
theorem canon_xor (U : Nat) (a b : BSet) (ha : Canon U a) (hb : Canon U b) : Canon U (xor a b) :=
  canon_combine U _ rfl a b ha hb
theorem canon_diff (U : Nat) (a b : BSet) (ha : Canon U a) (hb : Canon U b) : Canon U (diff a b) :=
  canon_combine U _ rfl a b ha hb

theorem canon_nil (U : Nat) : Canon U [] := by simp [Canon]

theorem canon_range (U lo hi : Nat) (h : hi ≤ U) : Canon U (range lo hi) := by
  unfold range; split
  · refine ⟨by simp; omega, ?_, by simp⟩
    intro b hb; simp at hb; omega
  · exact canon_nil U

theorem mem_range (lo hi x : Nat) : mem (range lo hi) x = (decide (lo ≤ x) && decide (x < hi)) := by
  unfold range; split
  · simp only [mem_cons, mem_nil]
    by_cases h1 : x < lo <;> by_cases h2 : x < hi <;> simp [h1, h2] <;> omega
  · by_cases h1 : lo ≤ x <;> by_cases h2 : x < hi <;> simp [h1, h2]; omega

theorem canon_single (U x : Nat) (h : x < U) : Canon U (single x) := by
  refine ⟨by simp [single], ?_, by simp [single]⟩
  intro b hb; simp [single] at hb; omega

theorem mem_single (v x : Nat) : mem (single v) x = decide (x = v) := by
  simp only [single, mem_cons, mem_nil]
  by_cases h1 : x < v <;> by_cases h2 : x < v + 1 <;> simp [h1, h2] <;> omega

theorem mem_add (s : BSet) (hs : SInc s) (v x : Nat) : mem (add s v) x = (mem s x || decide (x = v)) := by
  rw [add, mem_union _ _ hs (by simp [single]), mem_single]

theorem mem_remove (s : BSet) (hs : SInc s) (v x : Nat) :
    mem (remove s v) x = (mem s x && !decide (x = v)) := by
  rw [remove, mem_diff _ _ hs (by simp [single]), mem_single]

theorem sinc_range (lo hi : Nat) : SInc (range lo hi) := by
  unfold range; split <;> simp [*]

theorem mem_addRange (s : BSet) (hs : SInc s) (lo hi x : Nat) :
    mem (addRange s lo hi) x = (mem s x || (decide (lo ≤ x) && decide (x < hi))) := by
  rw [addRange, mem_union _ _ hs (sinc_range lo hi), mem_range]

theorem mem_removeRange (s : BSet) (hs : SInc s) (lo hi x : Nat) :
    mem (removeRange s lo hi) x = (mem s x && !(decide (lo ≤ x) && decide (x < hi))) := by
  rw [removeRange, mem_diff _ _ hs (sinc_range lo hi), mem_range]

theorem mem_flipRange (s : BSet) (hs : SInc s) (lo hi x : Nat) :
    mem (flipRange s lo hi) x = (mem s x != (decide (lo ≤ x) && decide (x < hi))) := by
  rw [flipRange, mem_xor _ _ hs (sinc_range lo hi), mem_range]

theorem mem_compl (U : Nat) (s : BSet) (hs : SInc s) (x : Nat) :
    mem (compl U s) x = (mem s x != decide (x < U)) := by
  rw [compl, mem_xor _ _ hs (sinc_range 0 U), mem_range]; simp

theorem canon_compl (U : Nat) (s : BSet) (hs : Canon U s) : Canon U (compl U s) :=
  canon_xor U _ _ hs (canon_range U 0 U (Nat.le_refl U))

/-- members of a canonical set lie inside the universe -/
theorem mem_lt_of_canon (U : Nat) (s : BSet) (hs : Canon U s) (x : Nat) (hx : mem s x = true) : x < U := by
  apply Classical.byContradiction
  intro hge
  have := mem_of_ge_all s x (fun b hb => by have := hs.2.1 b hb; omega)
  rw [hs.2.2] at this
  simp [hx] at this

end RModel.BSet
