import RProofs.Iter
import RProofs.IterRunMore
/-!
Iteration protocols, part 7: the many-iterators — the interface field `iter` of `manyIntIterator` (`MIt`) over the three
container kinds, and the bitmap-level `ManyIt` (`NextMany` / `NextMany64`).

* `MIt.Inv`, `MIt.rem`, `MIt.nextMany_spec`, `MIt.ofCont_spec`;
* `ManyIt.Inv`, `ManyIt.rem`, `ManyIt.create_spec`, `ManyIt.reinit_spec`;
* `ManyIt.loop_spec` / `nextMany_spec` : one call with buffer length `cap` returns the next `min cap |rem|` values;
* `ManyIt.nextManySeq_spec` : any sequence of buffer lengths concatenates to a prefix of the remaining list;
* `ManyIt.nextManySeq_create` : with enough total capacity the calls on `ManyIt.create r` concatenate to
  `BSet.toList r.toBSet`.
-/
namespace RModel.Impl.It
open RModel RModel.Impl RModel.Impl.ContOps RModel.Impl.ContQuery

/-- `uint64(ii.hs) | hs64` for a 32-bit `hs` and a mask `hs64` above the low 32 bits -/
theorem or_hs64_eq_add {a b : Nat} (ha : a < 4294967296) (hb : b % 4294967296 = 0) : a ||| b = b + a := by
  have h : b = (b / 4294967296) <<< 32 := by rw [Nat.shiftLeft_eq]; omega
  rw [Nat.or_comm, h]
  exact (Nat.shiftLeft_add_eq_or_of_lt (by simpa using ha) _).symm

namespace MIt

def Inv : MIt → Prop
  | .none => True
  | .arr a => a.Inv ∧ ∀ v ∈ a.slice, v < 65536
  | .run r => r.Inv
  | .bmp b => b.Inv

/-- the values still to be delivered -/
def rem : MIt → List Nat
  | .none => []
  | .arr a => a.rem
  | .run r => r.rem
  | .bmp b => b.rem

/-- one container-level `nextMany` call: the next `min cap |rem|` values, each with the high bits added -/
theorem nextMany_spec {it : MIt} (hi : it.Inv) (hs cap : Nat) (hhs : hs % 65536 = 0) :
    (it.nextMany hs cap).1 = (it.rem.take cap).map (hs + ·) ∧ (it.nextMany hs cap).2.Inv ∧
      (it.nextMany hs cap).2.rem = it.rem.drop cap ∧ ((it.nextMany hs cap).2 = .none ↔ it = .none) := by
  cases it with
  | none => exact ⟨by simp [nextMany, rem], trivial, by simp [nextMany, rem], Iff.rfl⟩
  | arr a =>
    obtain ⟨h1, h2, h3⟩ := ArrIt.nextMany_spec a hs cap
    refine ⟨?_, ⟨?_, ?_⟩, h2, ?_⟩
    · show (a.nextMany hs cap).1 = _
      rw [h1]
      apply List.map_congr_left
      intro v hv
      exact or_hs_eq_add (hi.2 v (List.mem_of_mem_drop (List.mem_of_mem_take hv))) hhs
    · show (a.nextMany hs cap).2.Inv
      unfold ArrIt.Inv; rw [h3]; exact hi.1
    · show ∀ v ∈ (a.nextMany hs cap).2.slice, v < 65536
      rw [h3]; exact hi.2
    · constructor <;> intro h <;> cases h
  | run r =>
    obtain ⟨h1, h2, h3, -⟩ := RunIt.nextMany_spec hi hs cap hhs
    refine ⟨h1, h2, h3, ?_⟩
    constructor <;> intro h <;> cases h
  | bmp b =>
    obtain ⟨h1, h2, h3, -⟩ := BmpManyIt.nextMany_spec hi hs cap hhs
    refine ⟨h1, h2, h3, ?_⟩
    constructor <;> intro h <;> cases h

theorem ofCont_spec {c : Cont} (h : c.wf = true) :
    (ofCont c).Inv ∧ (ofCont c).rem = valsOfCont c ∧ ofCont c ≠ .none := by
  cases c with
  | arr xs =>
    have hw := wf_arr h
    exact ⟨⟨hw.sorted, hw.bound⟩, rfl, fun e => by cases e⟩
  | run rs =>
    have hw := wf_run h
    obtain ⟨a, b⟩ := RunIt.init_spec rs hw.sep hw.bound
    exact ⟨a, b, fun e => by cases e⟩
  | bmp k ws =>
    obtain ⟨hl, -, -⟩ := wf_bmp h
    obtain ⟨h1, h2⟩ := BmpManyIt.init_spec ws hl
    exact ⟨h1, h2, fun e => by cases e⟩

theorem rem_lt {it : MIt} (hi : it.Inv) {v : Nat} (hv : v ∈ it.rem) : v < 65536 := by
  cases it with
  | none => cases hv
  | arr a => exact hi.2 v (List.mem_of_mem_drop hv)
  | run r => exact RunIt.mem_lt hi (mem_remFrom.mp hv).1
  | bmp b =>
    have := (mem_remFrom.mp hv).1
    have := lt_of_mem_valsOfWords _ _ this
    have hl : b.ws.length = 1024 := hi.1
    omega

end MIt

namespace ManyIt

/-- unlike the forward iterator, a many-iterator may rest on an exhausted container (the next call moves on) -/
def Inv (ii : ManyIt) : Prop :=
  SlotsWf ii.slots ∧
    (ii.pos < ii.slots.length → ii.hs = (slotAt ii.slots ii.pos).key * 65536 ∧ ii.iter.Inv ∧ ii.iter ≠ .none) ∧
    (¬ ii.pos < ii.slots.length → ii.iter = .none)

def rem (ii : ManyIt) : List Nat :=
  if ii.pos < ii.slots.length then
    ii.iter.rem.map (ii.hs + ·) ++ (ii.slots.drop (ii.pos + 1)).flatMap slotVals
  else []

theorem init_spec (ii : ManyIt) (hw : SlotsWf ii.slots) :
    ii.init.Inv ∧ ii.init.rem = (ii.slots.drop ii.pos).flatMap slotVals ∧ ii.init.slots = ii.slots ∧
      ii.init.pos = ii.pos := by
  unfold init
  by_cases h : ii.slots.length > ii.pos
  · rw [if_pos h]
    have hm := hw.ok _ (slotAt_mem h)
    obtain ⟨c1, c2, c3⟩ := MIt.ofCont_spec hm.2
    refine ⟨⟨hw, fun _ => ⟨shl16 _, c1, c3⟩, fun h' => absurd h h'⟩, ?_, rfl, rfl⟩
    simp only [rem]
    rw [if_pos (by exact h), drop_slots h, List.flatMap_cons, c2, shl16]
    rfl
  · rw [if_neg h]
    refine ⟨⟨hw, fun h' => absurd h' (by omega), fun _ => rfl⟩, ?_, rfl, rfl⟩
    simp only [rem]
    rw [if_neg (by omega), List.drop_eq_nil_iff.mpr (by omega)]
    rfl

theorem create_spec (r : Rep) (h : r.wf = true) : (create r).Inv ∧ (create r).rem = valsOfRep r := by
  have hw := (slotsWf_iff r).mp h
  obtain ⟨h1, h2, -, -⟩ := init_spec { ({} : ManyIt) with pos := 0, slots := r.slots } hw
  exact ⟨h1, h2⟩

theorem reinit_spec (ii : ManyIt) (r : Rep) (h : r.wf = true) : (ii.reinit r).Inv ∧ (ii.reinit r).rem = valsOfRep r := by
  have hw := (slotsWf_iff r).mp h
  obtain ⟨h1, h2, -, -⟩ := init_spec { ii with pos := 0, slots := r.slots } hw
  exact ⟨h1, h2⟩

/-- one container-level call inside the loop of `NextMany64`, on a state whose `iter` is not nil -/
theorem step_spec {ii : ManyIt} (hi : ii.Inv) (hne : ii.iter = MIt.none → False) (hs64 : Nat)
    (h64 : hs64 % 4294967296 = 0) (room : Nat) {got : List Nat} {it' : MIt}
    (hr : ii.iter.nextMany (ii.hs ||| hs64) room = (got, it')) :
    ii.pos < ii.slots.length ∧
      got = ((ii.iter.rem.map (ii.hs + ·)).take room).map (hs64 + ·) ∧
      ii.rem = ii.iter.rem.map (ii.hs + ·) ++ (ii.slots.drop (ii.pos + 1)).flatMap slotVals ∧
      ({ ii with iter := it' } : ManyIt).Inv ∧
      ({ ii with iter := it' } : ManyIt).rem =
        (ii.iter.rem.map (ii.hs + ·)).drop room ++ (ii.slots.drop (ii.pos + 1)).flatMap slotVals := by
  have hl : ii.pos < ii.slots.length := by
    apply Classical.byContradiction; intro hc
    exact hne (hi.2.2 hc)
  obtain ⟨e1, e2, e3⟩ := hi.2.1 hl
  have hk := (hi.1.ok _ (slotAt_mem hl)).1
  have hlt : ii.hs < 4294967296 := by omega
  have hor : ii.hs ||| hs64 = hs64 + ii.hs := or_hs64_eq_add hlt h64
  have hmod : (hs64 + ii.hs) % 65536 = 0 := by omega
  rw [hor] at hr
  obtain ⟨n1, n2, n3, n4⟩ := MIt.nextMany_spec e2 (hs64 + ii.hs) room hmod
  rw [hr] at n1 n2 n3 n4
  simp only [] at n1 n2 n3 n4
  refine ⟨hl, ?_, ?_, ⟨hi.1, fun _ => ⟨e1, n2, fun e => e3 (n4.mp e)⟩, fun h' => absurd hl h'⟩, ?_⟩
  · rw [n1, ← List.map_take, List.map_map]
    apply List.map_congr_left
    intro v _
    simp only [Function.comp]
    omega
  · simp only [rem]; rw [if_pos hl]
  · simp only [rem]; rw [if_pos hl, n3, List.map_drop]

/-- the loop of `NextMany64(hs64, buf)` with `len(buf) = room` (`hs64` a mask above the low 32 bits) -/
theorem loop_spec (hs64 : Nat) (h64 : hs64 % 4294967296 = 0) : ∀ (room : Nat) (ii : ManyIt), ii.Inv →
    (loop hs64 room ii).1 = (ii.rem.take room).map (hs64 + ·) ∧ (loop hs64 room ii).2.Inv ∧
      (loop hs64 room ii).2.rem = ii.rem.drop room := by
  intro room ii
  fun_induction ManyIt.loop hs64 room ii with
  | case1 ii => intro hi; exact ⟨rfl, hi, rfl⟩
  | case2 room ii hr0 hn =>
    intro hi
    have hl : ¬ ii.pos < ii.slots.length := fun hl => (hi.2.1 hl).2.2 hn
    have : ii.rem = [] := by simp only [rem]; rw [if_neg hl]
    rw [this]
    exact ⟨by simp, hi, by simp⟩
  | case3 room ii hr0 got it' hg hl hne hr ih =>
    intro hi
    obtain ⟨-, s2, s3, s4, s5⟩ := step_spec hi hne hs64 h64 room hr
    obtain ⟨i1, i2, -, -⟩ := init_spec { ii with iter := it', pos := ii.pos + 1 } hi.1
    have hA : ii.iter.rem.map (ii.hs + ·) = [] := by
      have := congrArg List.length s2
      rw [hg, List.length_map, List.length_take] at this
      apply List.eq_nil_of_length_eq_zero
      omega
    rw [hA] at s3
    have : ii.rem = ({ ii with iter := it', pos := ii.pos + 1 } : ManyIt).init.rem := by
      rw [s3, i2]; rfl
    rw [this]
    exact ih i1
  | case4 room ii hr0 got it' hg hl hne hr =>
    intro hi
    exact absurd (step_spec hi hne hs64 h64 room hr).1 hl
  | case5 room ii hr0 got it' hg hge hne hr =>
    intro hi
    obtain ⟨-, s2, s3, s4, s5⟩ := step_spec hi hne hs64 h64 room hr
    have hlen : room ≤ (ii.iter.rem.map (ii.hs + ·)).length := by
      have := congrArg List.length s2
      rw [List.length_map, List.length_take] at this
      omega
    refine ⟨?_, s4, ?_⟩
    · show got = _
      rw [s2, s3, List.take_append_of_le_length hlen]
    · show ({ ii with iter := it' } : ManyIt).rem = _
      rw [s5, s3, List.drop_append_of_le_length hlen]
  | case6 room ii hr0 got it' hg hge vs ii'' hloop hne hr ih =>
    intro hi
    obtain ⟨-, s2, s3, s4, s5⟩ := step_spec hi hne hs64 h64 room hr
    have hlen : got.length = (ii.iter.rem.map (ii.hs + ·)).length := by
      have := congrArg List.length s2
      rw [List.length_map, List.length_take] at this
      omega
    have hlt : (ii.iter.rem.map (ii.hs + ·)).length ≤ room := by omega
    obtain ⟨j1, j2, j3⟩ := ih s4
    rw [hloop] at j1 j2 j3
    simp only [] at j1 j2 j3
    rw [List.drop_of_length_le hlt, List.nil_append] at s5
    rw [s5, hlen] at j1 j3
    rw [List.take_of_length_le hlt] at s2
    refine ⟨?_, j2, ?_⟩
    · show got ++ vs = _
      rw [s3, List.take_append, List.map_append, List.take_of_length_le hlt, j1, s2]
    · show ii''.rem = _
      rw [j3, s3, List.drop_append, List.drop_of_length_le hlt, List.nil_append]

/-- `NextMany(buf)`: the next `min len(buf) |rem|` values, in order -/
theorem nextMany_spec {ii : ManyIt} (hi : ii.Inv) (cap : Nat) :
    (ii.nextMany cap).1 = ii.rem.take cap ∧ (ii.nextMany cap).2.Inv ∧ (ii.nextMany cap).2.rem = ii.rem.drop cap := by
  obtain ⟨h1, h2, h3⟩ := loop_spec 0 (by decide) cap ii hi
  refine ⟨?_, h2, h3⟩
  show (loop 0 cap ii).1 = _
  rw [h1]
  simp

/-- `NextMany64(hs64, buf)` -/
theorem nextMany64_spec {ii : ManyIt} (hi : ii.Inv) (hs64 cap : Nat) (h64 : hs64 % 4294967296 = 0) :
    (ii.nextMany64 hs64 cap).1 = (ii.rem.take cap).map (hs64 + ·) ∧ (ii.nextMany64 hs64 cap).2.Inv ∧
      (ii.nextMany64 hs64 cap).2.rem = ii.rem.drop cap :=
  loop_spec hs64 h64 cap ii hi

/-- any sequence of buffer lengths: the calls concatenate to the first `caps.sum` remaining values -/
theorem nextManySeq_spec : ∀ (caps : List Nat) (ii : ManyIt), ii.Inv →
    (ii.nextManySeq caps).1 = ii.rem.take caps.sum ∧ (ii.nextManySeq caps).2.Inv ∧
      (ii.nextManySeq caps).2.rem = ii.rem.drop caps.sum
  | [], ii, hi => by
    simp only [nextManySeq, List.sum_nil, List.take_zero, List.drop_zero]
    exact ⟨trivial, hi, trivial⟩
  | cap :: caps, ii, hi => by
    obtain ⟨h1, h2, h3⟩ := nextMany_spec hi cap
    obtain ⟨k1, k2, k3⟩ := nextManySeq_spec caps (ii.nextMany cap).2 h2
    simp only [nextManySeq, List.sum_cons]
    refine ⟨?_, k2, ?_⟩
    · show (ii.nextMany cap).1 ++ ((ii.nextMany cap).2.nextManySeq caps).1 = _
      rw [h1, k1, h3, List.take_add]
    · rw [k3, h3, List.drop_drop]

/-- **(c, many)** `NextMany` with ANY sequence of buffer lengths of sufficient total capacity concatenates to the members
of the denoted set, each once, in increasing order -/
theorem nextManySeq_create (r : Rep) (h : r.wf = true) (caps : List Nat) (hc : BSet.card r.toBSet ≤ caps.sum) :
    ((create r).nextManySeq caps).1 = BSet.toList r.toBSet := by
  obtain ⟨h1, h2⟩ := create_spec r h
  obtain ⟨k1, -, -⟩ := nextManySeq_spec caps _ h1
  have e := valsOfRep_eq_toList r h
  rw [k1, h2, e]
  apply List.take_of_length_le
  rw [BSet.toList_length]; exact hc

end ManyIt

end RModel.Impl.It
