import RProofs.BSet
/-!
Meaning of the interval-recursive query functions of `RModel/Spec/BSet.lean` in terms of `mem` (L0).
`Even s` = even length (finite set). All hypotheses are what `Canon U s` provides.
-/
namespace RModel.BSet

abbrev Even (s : BSet) : Prop := s.length % 2 = 0

/-! ### helpers -/

/-- two-step unfolding of `mem` (no hypotheses needed) -/
theorem mem_cons2 (lo hi : Nat) (t : BSet) (x : Nat) :
    mem (lo :: hi :: t) x = if x < lo then false else if x < hi then true else mem t x := by
  simp only [mem_cons]
  split
  · rfl
  · split <;> simp

/-- induction principle for strictly increasing even-length boundary lists -/
theorem even_induction {motive : (s : BSet) → SInc s → Even s → Prop}
    (nil : motive [] List.Pairwise.nil rfl)
    (step : ∀ (lo hi : Nat) (t : BSet) (_ : lo < hi) (_ : ∀ z ∈ t, hi < z) (hs : SInc t) (he : Even t)
      (hs' : SInc (lo :: hi :: t)) (he' : Even (lo :: hi :: t)),
      motive t hs he → motive (lo :: hi :: t) hs' he') :
    ∀ s hs he, motive s hs he
  | [], _, _ => nil
  | [_], _, he => by simp [Even] at he
  | lo :: hi :: t, hs, he => by
      have h1 := List.pairwise_cons.mp hs
      have h2 := List.pairwise_cons.mp h1.2
      have he' : Even t := by
        simp only [Even, List.length_cons] at he ⊢; omega
      exact step lo hi t (h1.1 hi (by simp)) h2.1 h2.2 he' hs he (even_induction nil step t h2.2 he')

theorem mem_eq_false_of_le_all (t : BSet) (x : Nat) {hi : Nat} (h : ∀ z ∈ t, hi < z) (hx : x ≤ hi) :
    mem t x = false :=
  mem_of_lt_all t x (fun b hb => by have := h b hb; omega)

theorem rankLt_eq_zero_of_le_all : ∀ (t : BSet) (n : Nat), (∀ z ∈ t, n ≤ z) → rankLt t n = 0
  | [], _, _ => rfl
  | [_], _, _ => rfl
  | lo :: hi :: t, n, h => by
      have h1 := h lo (by simp)
      have h2 := h hi (by simp)
      have ih := rankLt_eq_zero_of_le_all t n (fun z hz => h z (by simp [hz]))
      simp only [rankLt, ih]
      omega

theorem rankLt_zero (s : BSet) : rankLt s 0 = 0 :=
  rankLt_eq_zero_of_le_all s 0 (fun _ _ => Nat.zero_le _)

/-- `rankLt` satisfies the defining recurrence of "number of members below n". -/
theorem rankLt_succ (s : BSet) (hs : SInc s) (he : Even s) (n : Nat) :
    rankLt s (n + 1) = rankLt s n + (if mem s n then 1 else 0) := by
  induction s, hs, he using even_induction with
  | nil => simp [rankLt]
  | step lo hi t hlh ht _ _ _ _ ih =>
    simp only [rankLt, mem_cons2, ih]
    by_cases h1 : n < lo
    · simp only [h1, if_true]
      have := mem_eq_false_of_le_all t n ht (by omega)
      simp [this]; omega
    · by_cases h2 : n < hi
      · have := mem_eq_false_of_le_all t n ht (by omega)
        simp [h1, h2, this]; omega
      · simp only [h1, h2, if_false]
        omega

/-- hence it is the count of members below `n` -/
theorem rankLt_eq_count (s : BSet) (hs : SInc s) (he : Even s) (n : Nat) :
    rankLt s n = ((List.range n).filter (fun x => mem s x)).length := by
  induction n with
  | zero => simp [rankLt_zero]
  | succ n ih =>
    rw [rankLt_succ s hs he, ih, List.range_succ, List.filter_append]
    cases h : mem s n <;> simp [h]

theorem card_eq_rankLt_aux : ∀ (s : BSet) (n : Nat), (∀ b ∈ s, b ≤ n) → card s = rankLt s n
  | [], _, _ => rfl
  | [_], _, _ => rfl
  | lo :: hi :: t, n, hb => by
      have h1 := hb lo (by simp)
      have h2 := hb hi (by simp)
      simp only [card, rankLt, card_eq_rankLt_aux t n (fun b hb' => hb b (by simp [hb']))]
      omega

theorem card_eq_rankLt (U : Nat) (s : BSet) (hs : Canon U s) (n : Nat) (hn : U ≤ n) :
    card s = rankLt s n :=
  card_eq_rankLt_aux s n (fun b hb => Nat.le_trans (hs.2.1 b hb) hn)

theorem select_spec (s : BSet) (hs : SInc s) (he : Even s) (i v : Nat) :
    select s i = some v ↔ (mem s v = true ∧ rankLt s v = i) := by
  induction s, hs, he using even_induction generalizing i with
  | nil => simp [select]
  | step lo hi t hlh ht _ _ _ _ ih =>
    have hm : v ≤ hi → mem t v = false := mem_eq_false_of_le_all t v ht
    have hr : v ≤ hi → rankLt t v = 0 := fun h =>
      rankLt_eq_zero_of_le_all t v (fun z hz => by have := ht z hz; omega)
    simp only [select, mem_cons2, rankLt]
    by_cases hi' : i < hi - lo
    · simp only [hi', if_true, Option.some.injEq]
      by_cases h1 : v < lo
      · simp [h1]; omega
      · by_cases h2 : v < hi
        · have := hr (by omega)
          simp [h1, h2, this]; omega
        · simp only [h1, h2, if_false]
          constructor
          · intro h; omega
          · intro h; omega
    · simp only [hi', if_false, ih]
      by_cases h1 : v < lo
      · have := hm (by omega)
        simp [h1, this]
      · by_cases h2 : v < hi
        · have := hm (by omega)
          have := hr (by omega)
          simp [*]; omega
        · simp only [h1, h2, if_false]
          constructor
          · intro h; exact ⟨h.1, by omega⟩
          · intro h; exact ⟨h.1, by omega⟩

theorem select_none (s : BSet) (hs : SInc s) (he : Even s) (i : Nat) :
    select s i = none ↔ card s ≤ i := by
  induction s, hs, he using even_induction generalizing i with
  | nil => simp [select, card]
  | step lo hi t hlh ht _ _ _ _ ih =>
    simp only [select, card]
    by_cases hi' : i < hi - lo
    · simp [hi']; omega
    · simp only [hi', if_false, ih]; omega

theorem minimum_some (s : BSet) (hs : SInc s) (he : Even s) (v : Nat) :
    minimum s = some v ↔ (mem s v = true ∧ ∀ u, u < v → mem s u = false) := by
  induction s, hs, he using even_induction with
  | nil => simp [minimum]
  | step lo hi t hlh ht _ _ _ _ _ =>
    simp only [minimum, Option.some.injEq]
    constructor
    · intro h; subst h
      refine ⟨by simp [mem_cons2, hlh], ?_⟩
      intro u hu; simp [mem_cons2, hu]
    · rintro ⟨h1, h2⟩
      have hlo : mem (lo :: hi :: t) lo = true := by simp [mem_cons2, hlh]
      rcases Nat.lt_trichotomy lo v with h | h | h
      · rw [h2 lo h] at hlo; simp at hlo
      · exact h
      · simp [mem_cons2, h] at h1

theorem minimum_none (s : BSet) (hs : SInc s) (he : Even s) :
    minimum s = none ↔ ∀ x, mem s x = false := by
  induction s, hs, he using even_induction with
  | nil => simp [minimum]
  | step lo hi t hlh ht _ _ _ _ _ =>
    simp only [minimum]
    constructor
    · intro h; simp at h
    · intro h
      have := h lo
      simp [mem_cons2, hlh] at this

theorem maximum_some (s : BSet) (hs : SInc s) (he : Even s) (v : Nat) :
    maximum s = some v ↔ (mem s v = true ∧ ∀ u, v < u → mem s u = false) := by
  induction s, hs, he using even_induction with
  | nil => simp [maximum]
  | step lo hi t hlh ht hst _ _ _ ih =>
    cases t with
    | nil =>
      simp only [maximum, Option.some.injEq, mem_cons2, mem_nil]
      constructor
      · intro h; subst h
        refine ⟨by simp [show ¬ hi - 1 < lo by omega, show hi - 1 < hi by omega], ?_⟩
        intro u hu
        simp [show ¬ u < lo by omega, show ¬ u < hi by omega]
      · rintro ⟨h1, h2⟩
        by_cases hv1 : v < lo
        · simp [hv1] at h1
        · by_cases hv2 : v < hi
          · apply Classical.byContradiction; intro hne
            have := h2 (hi - 1) (by omega)
            simp [show ¬ hi - 1 < lo by omega, show hi - 1 < hi by omega] at this
          · simp [hv1, hv2] at h1
    | cons a t' =>
      have ha : hi < a := ht a (by simp)
      have hma : mem (a :: t') a = true := mem_head hst
      rw [show maximum (lo :: hi :: a :: t') = maximum (a :: t') by simp [maximum], ih]
      have hm : ∀ x, x ≤ hi → mem (a :: t') x = false := fun x hx =>
        mem_eq_false_of_le_all (a :: t') x ht hx
      constructor
      · rintro ⟨h1, h2⟩
        have hv : hi < v := by
          apply Classical.byContradiction; intro hc
          rw [hm v (by omega)] at h1; simp at h1
        refine ⟨by rw [mem_cons2]; simp [show ¬ v < lo by omega, show ¬ v < hi by omega, h1], ?_⟩
        intro u hu
        rw [mem_cons2]; simp [show ¬ u < lo by omega, show ¬ u < hi by omega, h2 u hu]
      · rintro ⟨h1, h2⟩
        have hv : hi < v := by
          apply Classical.byContradiction; intro hc
          have := h2 a (by omega)
          rw [mem_cons2] at this
          simp [show ¬ a < lo by omega, show ¬ a < hi by omega, hma] at this
        rw [mem_cons2] at h1
        simp only [show ¬ v < lo by omega, show ¬ v < hi by omega, if_false] at h1
        refine ⟨h1, ?_⟩
        intro u hu
        have := h2 u hu
        rw [mem_cons2] at this
        simpa [show ¬ u < lo by omega, show ¬ u < hi by omega] using this

theorem maximum_none (s : BSet) (hs : SInc s) (he : Even s) :
    maximum s = none ↔ ∀ x, mem s x = false := by
  induction s, hs, he using even_induction with
  | nil => simp [maximum]
  | step lo hi t hlh ht hst _ _ _ ih =>
    cases t with
    | nil =>
      simp only [maximum]
      constructor
      · intro h; simp at h
      · intro h
        have := h lo
        simp [mem_cons2, hlh] at this
    | cons a t' =>
      have ha : hi < a := ht a (by simp)
      have hma : mem (a :: t') a = true := mem_head hst
      rw [show maximum (lo :: hi :: a :: t') = maximum (a :: t') by simp [maximum], ih]
      constructor
      · intro h; rw [h a] at hma; simp at hma
      · intro h
        have := h a
        rw [mem_cons2] at this
        simp [show ¬ a < lo by omega, show ¬ a < hi by omega, hma] at this

theorem nextValue_some (s : BSet) (hs : SInc s) (he : Even s) (t v : Nat) :
    nextValue s t = some v ↔ (t ≤ v ∧ mem s v = true ∧ ∀ u, t ≤ u → u < v → mem s u = false) := by
  induction s, hs, he using even_induction with
  | nil => simp [nextValue]
  | step lo hi r hlh ht _ _ _ _ ih =>
    have hm : ∀ x, x ≤ hi → mem r x = false := fun x hx => mem_eq_false_of_le_all r x ht hx
    simp only [nextValue]
    by_cases h : t < hi
    · simp only [h, if_true, Option.some.injEq]
      constructor
      · intro e; subst e
        refine ⟨by omega, ?_, ?_⟩
        · rw [mem_cons2]; simp [show ¬ max lo t < lo by omega, show max lo t < hi by omega]
        · intro u h1 h2
          rw [mem_cons2]; simp [show u < lo by omega]
      · rintro ⟨h1, h2, h3⟩
        have hv : lo ≤ v := by
          apply Classical.byContradiction; intro hc
          rw [mem_cons2] at h2; simp [show v < lo by omega] at h2
        apply Classical.byContradiction; intro hne
        have := h3 (max lo t) (by omega) (by omega)
        rw [mem_cons2] at this
        simp [show ¬ max lo t < lo by omega, show max lo t < hi by omega] at this
    · simp only [h, if_false, ih]
      have hmem : ∀ u, t ≤ u → mem (lo :: hi :: r) u = mem r u := by
        intro u hu; rw [mem_cons2]; simp [show ¬ u < lo by omega, show ¬ u < hi by omega]
      constructor
      · rintro ⟨h1, h2, h3⟩
        refine ⟨h1, by rw [hmem v h1]; exact h2, ?_⟩
        intro u hu1 hu2; rw [hmem u hu1]; exact h3 u hu1 hu2
      · rintro ⟨h1, h2, h3⟩
        refine ⟨h1, by rw [← hmem v h1]; exact h2, ?_⟩
        intro u hu1 hu2; rw [← hmem u hu1]; exact h3 u hu1 hu2

theorem nextValue_none (s : BSet) (hs : SInc s) (he : Even s) (t : Nat) :
    nextValue s t = none ↔ ∀ u, t ≤ u → mem s u = false := by
  induction s, hs, he using even_induction with
  | nil => simp [nextValue]
  | step lo hi r hlh ht _ _ _ _ ih =>
    simp only [nextValue]
    by_cases h : t < hi
    · simp only [h, if_true]
      constructor
      · intro h; simp at h
      · intro h'
        have := h' (max lo t) (by omega)
        rw [mem_cons2] at this
        simp [show ¬ max lo t < lo by omega, show max lo t < hi by omega] at this
    · simp only [h, if_false, ih]
      have hmem : ∀ u, t ≤ u → mem (lo :: hi :: r) u = mem r u := by
        intro u hu; rw [mem_cons2]; simp [show ¬ u < lo by omega, show ¬ u < hi by omega]
      constructor
      · intro h' u hu; rw [hmem u hu]; exact h' u hu
      · intro h' u hu; rw [← hmem u hu]; exact h' u hu

/-- the four facts about `lo :: hi :: r` that every interval-recursive proof needs -/
theorem step_facts (lo hi : Nat) (r : BSet) (hlh : lo < hi) (ht : ∀ z ∈ r, hi < z) :
    (∀ u, u < lo → mem (lo :: hi :: r) u = false) ∧
    (∀ u, lo ≤ u → u < hi → mem (lo :: hi :: r) u = true) ∧
    (∀ u, hi ≤ u → mem (lo :: hi :: r) u = mem r u) ∧
    (∀ u, u ≤ hi → mem r u = false) := by
  refine ⟨?_, ?_, ?_, ?_⟩
  · intro u h; simp [mem_cons2, h]
  · intro u h1 h2; simp [mem_cons2, show ¬ u < lo by omega, h2]
  · intro u h; simp [mem_cons2, show ¬ u < lo by omega, show ¬ u < hi by omega]
  · intro u h; exact mem_eq_false_of_le_all r u ht h

theorem prevValueAux_some (s : BSet) (hs : SInc s) (he : Even s) (t v : Nat) (acc : Option Nat) :
    prevValueAux s t acc = some v ↔
      ((v ≤ t ∧ mem s v = true ∧ ∀ u, v < u → u ≤ t → mem s u = false) ∨
       ((∀ u, u ≤ t → mem s u = false) ∧ acc = some v)) := by
  induction s, hs, he using even_induction generalizing acc with
  | nil => simp [prevValueAux]
  | step lo hi r hlh ht _ _ _ _ ih =>
    obtain ⟨f1, f2, f3, f4⟩ := step_facts lo hi r hlh ht
    simp only [prevValueAux]
    by_cases h : t < lo
    · simp only [h, if_true]
      constructor
      · intro e
        exact Or.inr ⟨fun u hu => f1 u (by omega), e⟩
      · rintro (⟨h1, h2, _⟩ | ⟨_, e⟩)
        · rw [f1 v (by omega)] at h2; simp at h2
        · exact e
    · simp only [h, if_false, ih, Option.some.injEq]
      constructor
      · rintro (⟨h1, h2, h3⟩ | ⟨h1, e⟩)
        · have hv : hi < v := by
            apply Classical.byContradiction; intro hc
            rw [f4 v (by omega)] at h2; simp at h2
          refine Or.inl ⟨h1, by rw [f3 v (by omega)]; exact h2, ?_⟩
          intro u hu1 hu2; rw [f3 u (by omega)]; exact h3 u hu1 hu2
        · subst e
          refine Or.inl ⟨by omega, f2 _ (by omega) (by omega), ?_⟩
          intro u hu1 hu2; rw [f3 u (by omega)]; exact h1 u hu2
      · rintro (⟨h1, h2, h3⟩ | ⟨h1, _⟩)
        · by_cases hv : v < hi
          · have hvlo : lo ≤ v := by
              apply Classical.byContradiction; intro hc
              rw [f1 v (by omega)] at h2; simp at h2
            refine Or.inr ⟨?_, ?_⟩
            · intro u hu
              by_cases hu' : u ≤ hi
              · exact f4 u hu'
              · rw [← f3 u (by omega)]; exact h3 u (by omega) hu
            · apply Classical.byContradiction; intro hne
              have := h3 (min (hi - 1) t) (by omega) (by omega)
              rw [f2 _ (by omega) (by omega)] at this; simp at this
          · rw [f3 v (by omega)] at h2
            refine Or.inl ⟨h1, h2, ?_⟩
            intro u hu1 hu2; rw [← f3 u (by omega)]; exact h3 u hu1 hu2
        · have := h1 lo (by omega)
          rw [f2 lo (by omega) hlh] at this; simp at this

theorem prevValueAux_none (s : BSet) (hs : SInc s) (he : Even s) (t : Nat) (acc : Option Nat) :
    prevValueAux s t acc = none ↔ ((∀ u, u ≤ t → mem s u = false) ∧ acc = none) := by
  induction s, hs, he using even_induction generalizing acc with
  | nil => simp [prevValueAux]
  | step lo hi r hlh ht _ _ _ _ ih =>
    obtain ⟨f1, f2, f3, f4⟩ := step_facts lo hi r hlh ht
    simp only [prevValueAux]
    by_cases h : t < lo
    · simp only [h, if_true]
      constructor
      · intro e; exact ⟨fun u hu => f1 u (by omega), e⟩
      · intro e; exact e.2
    · simp only [h, if_false, ih]
      constructor
      · intro e; simp at e
      · rintro ⟨h1, _⟩
        have := h1 lo (by omega)
        rw [f2 lo (by omega) hlh] at this; simp at this

theorem prevValue_some (s : BSet) (hs : SInc s) (he : Even s) (t v : Nat) :
    prevValue s t = some v ↔ (v ≤ t ∧ mem s v = true ∧ ∀ u, v < u → u ≤ t → mem s u = false) := by
  simp [prevValue, prevValueAux_some s hs he]

theorem prevValue_none (s : BSet) (hs : SInc s) (he : Even s) (t : Nat) :
    prevValue s t = none ↔ ∀ u, u ≤ t → mem s u = false := by
  simp [prevValue, prevValueAux_none s hs he]

theorem nextAbsent_spec (s : BSet) (hs : SInc s) (he : Even s) (t : Nat) :
    t ≤ nextAbsent s t ∧ mem s (nextAbsent s t) = false ∧
      ∀ u, t ≤ u → u < nextAbsent s t → mem s u = true := by
  induction s, hs, he using even_induction with
  | nil => simp [nextAbsent]
  | step lo hi r hlh ht _ _ _ _ ih =>
    obtain ⟨f1, f2, f3, f4⟩ := step_facts lo hi r hlh ht
    simp only [nextAbsent]
    by_cases h1 : t < lo
    · simp only [h1, if_true]
      exact ⟨Nat.le_refl _, f1 t h1, fun u hu1 hu2 => by omega⟩
    · by_cases h2 : t < hi
      · simp only [h1, h2, if_true, if_false]
        refine ⟨by omega, ?_, fun u hu1 hu2 => f2 u (by omega) hu2⟩
        rw [f3 hi (Nat.le_refl _)]; exact f4 hi (Nat.le_refl _)
      · simp only [h1, h2, if_false]
        obtain ⟨i1, i2, i3⟩ := ih
        refine ⟨i1, ?_, ?_⟩
        · rw [f3 _ (by omega)]; exact i2
        · intro u hu1 hu2; rw [f3 u (by omega)]; exact i3 u hu1 hu2

theorem prevAbsent_some (s : BSet) (hs : SInc s) (he : Even s) (t v : Nat) :
    prevAbsent s t = some v ↔ (v ≤ t ∧ mem s v = false ∧ ∀ u, v < u → u ≤ t → mem s u = true) := by
  unfold prevAbsent
  induction s, hs, he using even_induction with
  | nil =>
    simp only [prevAbsentAux, Option.some.injEq, mem_nil, true_and]
    constructor
    · intro e; subst e; exact ⟨Nat.le_refl _, fun u h1 h2 => by omega⟩
    · rintro ⟨h1, h2⟩
      apply Classical.byContradiction; intro hne
      have := h2 t (by omega) (Nat.le_refl _)
      simp at this
  | step lo hi r hlh ht _ _ _ _ ih =>
    obtain ⟨f1, f2, f3, f4⟩ := step_facts lo hi r hlh ht
    have hhi : mem (lo :: hi :: r) hi = false := by
      rw [f3 hi (Nat.le_refl _)]; exact f4 hi (Nat.le_refl _)
    simp only [prevAbsentAux]
    by_cases h1 : t < lo
    · simp only [h1, if_true, Option.some.injEq]
      constructor
      · intro e; subst e
        exact ⟨Nat.le_refl _, f1 t h1, fun u hu1 hu2 => by omega⟩
      · rintro ⟨g1, g2, g3⟩
        apply Classical.byContradiction; intro hne
        have := g3 t (by omega) (Nat.le_refl _)
        rw [f1 t h1] at this; simp at this
    · by_cases h2 : t < hi
      · simp only [h1, h2, if_true, if_false]
        by_cases h0 : lo = 0
        · subst h0
          simp only [↓reduceIte]
          constructor
          · intro e; simp at e
          · rintro ⟨g1, g2, _⟩
            rw [f2 v (by omega) (by omega)] at g2; simp at g2
        · simp only [h0, if_false, Option.some.injEq]
          constructor
          · intro e; subst e
            exact ⟨by omega, f1 _ (by omega), fun u hu1 hu2 => f2 u (by omega) (by omega)⟩
          · rintro ⟨g1, g2, g3⟩
            have hv : v < lo := by
              apply Classical.byContradiction; intro hc
              rw [f2 v (by omega) (by omega)] at g2; simp at g2
            apply Classical.byContradiction; intro hne
            have := g3 (lo - 1) (by omega) (by omega)
            rw [f1 _ (by omega)] at this; simp at this
      · simp only [h1, h2, if_false, ih]
        constructor
        · rintro ⟨g1, g2, g3⟩
          have hv : hi ≤ v := by
            apply Classical.byContradiction; intro hc
            have := g3 hi (by omega) (by omega)
            rw [f4 hi (Nat.le_refl _)] at this; simp at this
          refine ⟨g1, by rw [f3 v hv]; exact g2, ?_⟩
          intro u hu1 hu2; rw [f3 u (by omega)]; exact g3 u hu1 hu2
        · rintro ⟨g1, g2, g3⟩
          have hv : hi ≤ v := by
            apply Classical.byContradiction; intro hc
            have := g3 hi (by omega) (by omega)
            rw [hhi] at this; simp at this
          refine ⟨g1, by rw [← f3 v hv]; exact g2, ?_⟩
          intro u hu1 hu2; rw [← f3 u (by omega)]; exact g3 u hu1 hu2

theorem prevAbsent_none (s : BSet) (hs : SInc s) (he : Even s) (t : Nat) :
    prevAbsent s t = none ↔ ∀ u, u ≤ t → mem s u = true := by
  unfold prevAbsent
  induction s, hs, he using even_induction with
  | nil =>
    simp only [prevAbsentAux, mem_nil]
    constructor
    · intro e; simp at e
    · intro h; have := h t (Nat.le_refl _); simp at this
  | step lo hi r hlh ht _ _ _ _ ih =>
    obtain ⟨f1, f2, f3, f4⟩ := step_facts lo hi r hlh ht
    have hhi : mem (lo :: hi :: r) hi = false := by
      rw [f3 hi (Nat.le_refl _)]; exact f4 hi (Nat.le_refl _)
    simp only [prevAbsentAux]
    by_cases h1 : t < lo
    · simp only [h1, if_true]
      constructor
      · intro e; simp at e
      · intro h; have := h t (Nat.le_refl _); rw [f1 t h1] at this; simp at this
    · by_cases h2 : t < hi
      · simp only [h1, h2, if_true, if_false]
        by_cases h0 : lo = 0
        · subst h0
          simp only [↓reduceIte, true_iff]
          intro u hu; exact f2 u (by omega) (by omega)
        · simp only [h0, if_false]
          constructor
          · intro e; simp at e
          · intro h; have := h (lo - 1) (by omega); rw [f1 _ (by omega)] at this; simp at this
      · simp only [h1, h2, if_false, ih]
        constructor
        · intro h; have := h hi (by omega); rw [f4 hi (Nat.le_refl _)] at this; simp at this
        · intro h; have := h hi (by omega); rw [hhi] at this; simp at this

theorem rankLt_add (s : BSet) (hs : SInc s) (he : Even s) (lo d : Nat) :
    rankLt s (lo + d) = rankLt s lo + ((List.range' lo d).filter (fun x => mem s x)).length := by
  induction d with
  | zero => simp
  | succ d ih =>
    rw [← Nat.add_assoc, rankLt_succ s hs he, ih, List.range'_1_concat, List.filter_append]
    cases h : mem s (lo + d) <;> simp [h, Nat.add_assoc]

theorem cardInRange_spec (s : BSet) (hs : SInc s) (he : Even s) (lo hi : Nat) (h : lo ≤ hi) :
    cardInRange s lo hi = ((List.range' lo (hi - lo)).filter (fun x => mem s x)).length := by
  have := rankLt_add s hs he lo (hi - lo)
  rw [show lo + (hi - lo) = hi by omega] at this
  unfold cardInRange
  omega

theorem mem_shiftUp (s : BSet) (k x : Nat) :
    mem (shiftUp s k) x = (decide (k ≤ x) && mem s (x - k)) := by
  unfold shiftUp
  induction s with
  | nil => simp
  | cons b t ih =>
    simp only [List.map_cons, mem_cons, ih]
    by_cases hk : k ≤ x
    · by_cases hb : x < b + k
      · simp [hb, show x - k < b by omega]
      · simp [hb, hk, show ¬ x - k < b by omega]
    · simp [hk, show x < b + k by omega]

theorem sinc_shiftUp (s : BSet) (hs : SInc s) (k : Nat) : SInc (shiftUp s k) := by
  unfold shiftUp
  exact List.Pairwise.map _ (fun a b h => by omega) hs

theorem mem_toggle0 (r : BSet) (x : Nat) : mem (toggle0 r) x = !(mem r x) := by
  unfold toggle0
  split
  · simp [mem_cons]
  · simp [mem_cons]

theorem sinc_toggle0 (r : BSet) (hr : SInc r) : SInc (toggle0 r) := by
  unfold toggle0
  split
  · exact (List.pairwise_cons.mp hr).2
  · rename_i h
    refine List.pairwise_cons.mpr ⟨?_, hr⟩
    intro z hz
    cases r with
    | nil => simp at hz
    | cons a r' =>
      have ha : a ≠ 0 := fun e => h r' (by rw [e])
      rcases List.mem_cons.mp hz with e | e
      · omega
      · have := (List.pairwise_cons.mp hr).1 z e; omega

theorem mem_map_sub (t : BSet) (k x : Nat) (h : ∀ z ∈ t, k ≤ z) :
    mem (t.map (· - k)) x = mem t (x + k) := by
  induction t with
  | nil => simp
  | cons b t ih =>
    have hb := h b (by simp)
    simp only [List.map_cons, mem_cons, ih (fun z hz => h z (by simp [hz]))]
    by_cases hx : x < b - k
    · simp [hx, show x + k < b by omega]
    · simp [hx, show ¬ x + k < b by omega]

theorem sinc_map_sub (t : BSet) (k : Nat) (ht : SInc t) (h : ∀ z ∈ t, k ≤ z) :
    SInc (t.map (· - k)) := by
  rw [SInc, List.pairwise_map]
  exact List.Pairwise.imp_of_mem (fun {a b} ha hb hab => by
    have := h a ha; have := h b hb; omega) ht

theorem mem_shiftDown (s : BSet) (hs : SInc s) (k x : Nat) :
    mem (shiftDown s k) x = mem s (x + k) := by
  induction s with
  | nil => simp [shiftDown]
  | cons b t ih =>
    have hp := List.pairwise_cons.mp hs
    simp only [shiftDown]
    by_cases hb : b ≤ k
    · simp [hb, mem_toggle0, ih hp.2, mem_cons, show ¬ x + k < b by omega]
    · have hge : ∀ z ∈ t, k ≤ z := fun z hz => by have := hp.1 z hz; omega
      simp only [hb, if_false, mem_cons, mem_map_sub t k x hge]
      by_cases hx : x < b - k
      · simp [hx, show x + k < b by omega]
      · simp [hx, show ¬ x + k < b by omega]

theorem sinc_shiftDown (s : BSet) (hs : SInc s) (k : Nat) : SInc (shiftDown s k) := by
  induction s with
  | nil => simp [shiftDown]
  | cons b t ih =>
    have hp := List.pairwise_cons.mp hs
    simp only [shiftDown]
    by_cases hb : b ≤ k
    · simp only [hb, if_true]
      exact sinc_toggle0 _ (ih hp.2)
    · simp only [hb, if_false]
      have : SInc ((b :: t).map (· - k)) := sinc_map_sub (b :: t) k hs (fun z hz => by
        rcases List.mem_cons.mp hz with e | e
        · omega
        · have := hp.1 z e; omega)
      simpa using this

/-- `shift U s d = {v + d | v ∈ s, 0 ≤ v + d < U}` -/
theorem mem_shift (U : Nat) (s : BSet) (hs : SInc s) (d : Int) (x : Nat) :
    mem (shift U s d) x =
      (decide (x < U) && decide (0 ≤ (x : Int) - d) && mem s ((x : Int) - d).toNat) := by
  unfold shift
  by_cases hd : d ≥ 0
  · simp only [hd, if_true]
    rw [mem_inter _ _ (sinc_shiftUp s hs _) (sinc_range 0 U), mem_range, mem_shiftUp]
    by_cases hk : d.toNat ≤ x
    · have e : ((x : Int) - d).toNat = x - d.toNat := by omega
      rw [e]
      simp [hk, show d ≤ (x : Int) by omega, Bool.and_comm]
    · simp [hk, show ¬ d ≤ (x : Int) by omega]
  · simp only [hd, if_false]
    rw [mem_inter _ _ (sinc_shiftDown s hs _) (sinc_range 0 U), mem_range, mem_shiftDown s hs]
    have e : ((x : Int) - d).toNat = x + (-d).toNat := by omega
    rw [e]
    simp [show d ≤ (x : Int) by omega, Bool.and_comm]

/-- at a boundary membership flips -/
theorem mem_flip_at (r : BSet) (hr : SInc r) (z : Nat) (hz : z ∈ r) (hpos : 0 < z) :
    mem r z = !(mem r (z - 1)) := by
  induction r with
  | nil => simp at hz
  | cons b t ih =>
    have hp := List.pairwise_cons.mp hr
    rcases List.mem_cons.mp hz with e | e
    · subst e
      rw [mem_head hr]
      simp [mem_cons, show z - 1 < z by omega]
    · have := hp.1 z e
      simp only [mem_cons, show ¬ z < b by omega, show ¬ z - 1 < b by omega, if_false]
      rw [ih hp.2 e]

/-- a strictly increasing list with no member `≥ U` is canonical in `[0,U)` -/
theorem canon_of_bounded (U : Nat) (r : BSet) (hr : SInc r) (h : ∀ x, U ≤ x → mem r x = false) :
    Canon U r := by
  have hb : ∀ z ∈ r, z ≤ U := by
    intro z hz
    apply Classical.byContradiction; intro hc
    have := mem_flip_at r hr z hz (by omega)
    rw [h z (by omega), h (z - 1) (by omega)] at this
    simp at this
  refine ⟨hr, hb, ?_⟩
  have := mem_of_ge_all r U hb
  rw [h U (Nat.le_refl _)] at this
  have := Nat.mod_two_eq_zero_or_one r.length
  rcases this with e | e
  · exact e
  · simp [e] at this

theorem canon_shift (U : Nat) (s : BSet) (hs : Canon U s) (d : Int) : Canon U (shift U s d) := by
  apply canon_of_bounded
  · unfold shift
    apply sinc_combine
    · split
      · exact sinc_shiftUp s hs.1 _
      · exact sinc_shiftDown s hs.1 _
    · exact sinc_range 0 U
  · intro x hx
    rw [mem_shift U s hs.1]
    simp [show ¬ x < U by omega]

theorem mem_toList (s : BSet) (hs : SInc s) (he : Even s) (x : Nat) :
    x ∈ toList s ↔ mem s x = true := by
  induction s, hs, he using even_induction with
  | nil => simp [toList]
  | step lo hi r hlh ht _ _ _ _ ih =>
    obtain ⟨f1, f2, f3, f4⟩ := step_facts lo hi r hlh ht
    simp only [toList, List.mem_append, List.mem_range'_1, ih]
    by_cases h1 : x < lo
    · rw [f1 x h1, f4 x (by omega)]
      simp; omega
    · by_cases h2 : x < hi
      · rw [f2 x (by omega) h2]
        simp; omega
      · rw [f3 x (by omega)]
        constructor
        · rintro (h | h)
          · omega
          · exact h
        · intro h; exact Or.inr h

theorem toList_sorted (s : BSet) (hs : SInc s) (he : Even s) : (toList s).Pairwise (· < ·) := by
  induction s, hs, he using even_induction with
  | nil => simp [toList]
  | step lo hi r hlh ht hsr her _ _ ih =>
    obtain ⟨f1, f2, f3, f4⟩ := step_facts lo hi r hlh ht
    simp only [toList]
    refine List.pairwise_append.mpr ⟨List.pairwise_lt_range', ih, ?_⟩
    intro a ha b hb
    rw [List.mem_range'_1] at ha
    rw [mem_toList r hsr her] at hb
    apply Classical.byContradiction; intro hc
    rw [f4 b (by omega)] at hb; simp at hb

theorem toList_length_aux : ∀ (s : BSet), (toList s).length = card s
  | [] => rfl
  | [_] => rfl
  | lo :: hi :: t => by
      simp [toList, card, toList_length_aux t]

theorem toList_length (s : BSet) : (toList s).length = card s := by
  exact toList_length_aux s

theorem isEmpty_iff (s : BSet) (hs : SInc s) (he : Even s) :
    isEmpty s = true ↔ ∀ x, mem s x = false := by
  induction s, hs, he using even_induction with
  | nil => simp [isEmpty]
  | step lo hi r hlh ht _ _ _ _ _ =>
    obtain ⟨f1, f2, f3, f4⟩ := step_facts lo hi r hlh ht
    simp only [isEmpty, List.isEmpty_cons]
    constructor
    · intro h; simp at h
    · intro h; have := h lo; rw [f2 lo (Nat.le_refl _) hlh] at this; simp at this

end RModel.BSet
