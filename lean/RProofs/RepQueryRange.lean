import RProofs.RepQueryBase
/-!
`CardinalityInRange` and `IntersectsWithInterval` of `RModel/Impl/RepQuery.lean` compute the set-level answers of `BSet` on the
abstraction `r.toBSet`, for well-formed `r` and in-domain arguments.
-/
namespace RModel.Impl
open RModel RModel.BSet RModel.Driver ContOps ContQuery RepOps RepQuery It

/-! ### `IntersectsWithInterval` -/

/-- `IntersectsWithInterval(a, b)`: some member in `[a, b)` -/
theorem Rep.intersectsWithInterval_spec (r : Rep) (h : r.wf = true) (a b : Nat) (hb : b ≤ 4294967296) :
    r.intersectsWithInterval a b = (BSet.cardInRange r.toBSet a b != 0) := by
  obtain ⟨hw, hs, he, hm⟩ := rep_facts r h
  have hcr : BSet.cardInRange r.toBSet a b = cnt (slotsHas r.slots) b - cnt (slotsHas r.slots) a := by
    unfold BSet.cardInRange
    rw [rankLt_eq_cnt hs he hm, rankLt_eq_cnt hs he hm]
  rw [hcr]
  unfold Rep.intersectsWithInterval
  by_cases hab : a ≥ b
  · rw [if_pos hab]
    have := cnt_mono (slotsHas r.slots) hab
    symm
    simp only [bne_eq_false_iff_eq]
    omega
  · rw [if_neg hab, if_neg (by omega)]
    simp only []
    obtain ⟨c1, c2⟩ := IntIt.create_spec r h
    have c3 := IntIt.create_from_cursor r h
    obtain ⟨hi, hrem⟩ := IntIt.advance_from_cursor c1 r h 0 a (by omega) c3
    rw [Nat.zero_max] at hrem
    have hhead := remFrom_toList_head r.toBSet hs he a
    rw [← hrem] at hhead
    generalize (IntIt.create r).advanceIfNeeded a = ii at hi hrem hhead
    cases hr : ii.rem with
    | nil =>
      have hn : ii.hasNext = false := by
        cases hh : ii.hasNext
        · rfl
        · exact absurd hr ((IntIt.hasNext_iff hi).mp hh)
      rw [hr, List.head?_nil] at hhead
      have hnone := (nextValue_none r.toBSet hs he a).mp hhead.symm
      have := cnt_eq_of_none (slotsHas r.slots) (show a ≤ b by omega) (fun u hu _ => by rw [← hm]; exact hnone u hu)
      rw [hn]
      symm
      simp only [Bool.not_false, if_true, bne_eq_false_iff_eq]
      omega
    | cons v t =>
      have hh : ii.hasNext = true := (IntIt.hasNext_iff hi).mpr (by rw [hr]; simp)
      obtain ⟨n1, -, -, -⟩ := IntIt.next_spec hi hr
      rw [hr, List.head?_cons] at hhead
      obtain ⟨hav, hmem, hnone⟩ := (nextValue_some r.toBSet hs he a v).mp hhead.symm
      rw [hh, n1]
      simp only [Bool.not_true, Bool.false_eq_true, if_false]
      by_cases hvb : v ≥ b
      · rw [if_pos hvb]
        have := cnt_eq_of_none (slotsHas r.slots) (show a ≤ b by omega)
          (fun u hu hub => by rw [← hm]; exact hnone u hu (by omega))
        symm
        simp only [bne_eq_false_iff_eq]
        omega
      · rw [if_neg hvb]
        have e1 := cnt_eq_of_none (slotsHas r.slots) hav (fun u hu hub => by rw [← hm]; exact hnone u hu hub)
        have e2 := cnt_lt_of_mem (slotsHas r.slots) (show v < b by omega) (by rw [← hm]; exact hmem)
        symm
        simp only [bne_iff_ne, ne_eq]
        omega

/-! ### `CardinalityInRange` -/

namespace RepQuery

/-- what `getIndex` returns on the key array: the same four-way statement as `bs_keys` -/
theorem gi_keys4 {l : List Slot} (h : SlotsWf l) (k : Nat) :
    (0 ≤ getIndex (keysOf l) k ∧ (getIndex (keysOf l) k).toNat < l.length ∧
        kAt l (getIndex (keysOf l) k).toNat = k) ∨
    (getIndex (keysOf l) k < 0 ∧ (-(getIndex (keysOf l) k) - 1).toNat ≤ l.length ∧
        (∀ i, i < (-(getIndex (keysOf l) k) - 1).toNat → kAt l i < k) ∧
        (∀ i, (-(getIndex (keysOf l) k) - 1).toNat ≤ i → i < l.length → k < kAt l i)) := by
  unfold getIndex
  rw [keysOf_length]
  by_cases h0 : l.length = 0
  · rw [if_pos (Or.inl h0), h0]
    refine Or.inr ⟨by omega, by omega, fun i hi => by omega, fun i _ hi => by omega⟩
  · by_cases h1 : (keysOf l).getD (l.length - 1) 0 = k
    · rw [if_pos (Or.inr h1)]
      have hlt : l.length - 1 < l.length := by omega
      rw [keysOf_getD hlt] at h1
      have e : ((l.length : Int) - 1).toNat = l.length - 1 := by omega
      refine Or.inl ⟨by omega, by rw [e]; exact hlt, by rw [e]; exact h1⟩
    · rw [if_neg (by intro hc; rcases hc with hc | hc; exact h0 hc; exact h1 hc)]
      exact bs_keys h k

/-- the index the drivers derive from a `getIndex` result: the position itself, or the insertion point -/
def giPos (g : Int) : Nat := if g < 0 then (-g - 1).toNat else g.toNat

/-- `giPos (getIndex keys k)` is the number of keys below `k`; the result is non-negative iff the key is there -/
theorem gi_ins {l : List Slot} (h : SlotsWf l) (k : Nat) :
    giPos (getIndex (keysOf l) k) ≤ l.length ∧
    (∀ j, j < giPos (getIndex (keysOf l) k) → kAt l j < k) ∧
    (∀ j, giPos (getIndex (keysOf l) k) ≤ j → j < l.length → k ≤ kAt l j) ∧
    (0 ≤ getIndex (keysOf l) k ↔
      (giPos (getIndex (keysOf l) k) < l.length ∧ kAt l (giPos (getIndex (keysOf l) k)) = k)) := by
  unfold giPos
  rcases gi_keys4 h k with ⟨h0, hl, he⟩ | ⟨h0, hl, hA, hB⟩
  · rw [if_neg (by omega)]
    refine ⟨by omega, ?_, ?_, ?_⟩
    · intro j hj; have := kAt_lt h hj hl; omega
    · intro j hj hjl; have := kAt_le h hj hjl; omega
    · exact ⟨fun _ => ⟨hl, he⟩, fun _ => h0⟩
  · rw [if_pos h0]
    refine ⟨hl, hA, ?_, ?_⟩
    · intro j hj hjl; have := hB j hj hjl; omega
    · constructor
      · intro hc; omega
      · rintro ⟨h1, h2⟩; have := hB _ (Nat.le_refl _) h1; omega

theorem cardSum_take_succ {l : List Slot} {i : Nat} (hi : i < l.length) :
    cardSum (l.take (i + 1)) = cardSum (l.take i) + (cAt l i).getCardinalityQ := by
  induction l generalizing i with
  | nil => simp at hi
  | cons s t ih =>
    cases i with
    | zero => simp [cardSum, cAt, slotAt]
    | succ i =>
      have hi' : i < t.length := by simpa using hi
      rw [List.take_succ_cons, cardSum, ih hi', List.take_succ_cons, cardSum]
      have : cAt (s :: t) (i + 1) = cAt t i := rfl
      rw [this]; omega

theorem cardSum_append (x y : List Slot) : cardSum (x ++ y) = cardSum x + cardSum y := by
  induction x with
  | nil => simp [cardSum]
  | cons s t ih => rw [List.cons_append, cardSum, cardSum, ih]; omega

/-- the slots `[i, j)` -/
theorem cardSum_take_drop (l : List Slot) {i j : Nat} (hij : i ≤ j) :
    cardSum (l.take j) = cardSum (l.take i) + cardSum ((l.take j).drop i) := by
  have := cardSum_append ((l.take j).take i) ((l.take j).drop i)
  rw [List.take_append_drop, List.take_take, Nat.min_eq_left hij] at this
  exact this

/-- `slotsCnt` below `k·2^16 + lo` through the insertion index `i` of `k`: the slots before `i` in full, and the part below `lo`
of the slot with key `k` when it is there -/
theorem slotsCnt_ins {l : List Slot} (hw : SlotsWf l) (k lo : Nat) (hlo : lo ≤ 65536) (i : Nat) (hi : i ≤ l.length)
    (hA : ∀ j, j < i → kAt l j < k) (hB : ∀ j, i ≤ j → j < l.length → k ≤ kAt l j) :
    (slotsCnt l (k * 65536 + lo) : Int) =
      cardSum (l.take i) + (if i < l.length ∧ kAt l i = k then (cnt (cAt l i).has lo : Int) else 0) := by
  induction l generalizing i with
  | nil =>
    have : i = 0 := by simpa using hi
    subst this
    simp [slotsCnt, cardSum]
  | cons s t ih =>
    have hh := hw.head
    have hlt := hw.head_lt
    have k0 : kAt (s :: t) 0 = s.key := rfl
    cases i with
    | zero =>
      have hk := hB 0 (Nat.le_refl _) (by simp)
      rw [k0] at hk
      rw [slotsCnt, slotsCnt_zero (l := t), List.take_zero, cardSum, k0]
      · by_cases hks : s.key = k
        · rw [if_pos ⟨by simp, hks⟩, show min (k * 65536 + lo - s.key * 65536) 65536 = lo by omega]
          have : cAt (s :: t) 0 = s.c := rfl
          rw [this]; omega
        · rw [if_neg (fun hc => hks hc.2), show min (k * 65536 + lo - s.key * 65536) 65536 = 0 by omega, cnt_zero]
          rfl
      · intro s' hs'
        have := hlt s' hs'
        omega
    | succ i =>
      have hk := hA 0 (by omega)
      rw [k0] at hk
      have e1 : ∀ j, kAt (s :: t) (j + 1) = kAt t j := fun _ => rfl
      have e2 : cAt (s :: t) (i + 1) = cAt t i := rfl
      have hi' : i ≤ t.length := by simpa using hi
      have := ih hw.tail i hi' (fun j hj => by rw [← e1]; exact hA (j + 1) (by omega))
        (fun j hj hjl => by rw [← e1]; exact hB (j + 1) (by omega) (by simpa using hjl))
      rw [slotsCnt, Int.natCast_add, this, slot_full hh.2 (by omega), List.take_succ_cons, cardSum, e1, e2,
        List.length_cons]
      have : (i + 1 < t.length + 1 ∧ kAt t i = k) ↔ (i < t.length ∧ kAt t i = k) := by omega
      simp only [this]
      omega

end RepQuery

/-- `CardinalityInRange(a, b)`: number of members in `[a, b)`; domain `a ≤ 2^32`, `b ≤ 2^32` -/
theorem Rep.cardInRange_spec (r : Rep) (h : r.wf = true) (a b : Nat) (ha : a ≤ 4294967296) (hb : b ≤ 4294967296) :
    r.cardInRange a b = (BSet.cardInRange r.toBSet a b : Int) := by
  obtain ⟨hw, hs, he, hm⟩ := rep_facts r h
  have hcr : BSet.cardInRange r.toBSet a b = slotsCnt r.slots b - slotsCnt r.slots a := by
    unfold BSet.cardInRange
    rw [rankLt_eq_cnt hs he hm, rankLt_eq_cnt hs he hm, cnt_slotsHas hw, cnt_slotsHas hw]
  have hmono : ∀ {x y : Nat}, x ≤ y → slotsCnt r.slots x ≤ slotsCnt r.slots y := by
    intro x y hxy
    rw [← cnt_slotsHas hw, ← cnt_slotsHas hw]
    exact cnt_mono _ hxy
  rw [hcr]
  unfold Rep.cardInRange
  by_cases hab : a ≥ b
  · rw [if_pos hab]
    have := hmono hab
    omega
  · rw [if_neg hab]
    simp only []
    rw [if_neg (show ¬ b > 4294967296 by omega), Nat.mod_eq_of_lt (show a < 4294967296 by omega),
      Nat.mod_eq_of_lt (show b - 1 < 4294967296 by omega), keysOf_length]
    obtain ⟨s1, s2, s3, s4⟩ := gi_ins hw (a / 65536)
    obtain ⟨t1, t2, t3, t4⟩ := gi_ins hw ((b - 1) / 65536)
    generalize getIndex (keysOf r.slots) (a / 65536) = gS at *
    generalize getIndex (keysOf r.slots) ((b - 1) / 65536) = gE at *
    have eS : (if gS < 0 then (-gS - 1).toNat else gS.toNat) = giPos gS := rfl
    have eE : (if decide (gE ≥ 0) = true then gE.toNat else (-gE - 1).toNat) = giPos gE := by
      unfold giPos
      by_cases hg : gE < 0
      · rw [if_pos hg, if_neg (by simp only [decide_eq_true_eq]; omega)]
      · rw [if_neg hg, if_pos (by simp only [decide_eq_true_eq]; omega)]
    have eE2 : 0 ≤ gE → gE.toNat = giPos gE := by
      intro hg; unfold giPos; rw [if_neg (by omega)]
    rw [eS, eE]
    have hSa := slotsCnt_ins hw (a / 65536) (a % 65536) (by omega) _ s1 s2 s3
    rw [show a / 65536 * 65536 + a % 65536 = a by omega] at hSa
    have hSb := slotsCnt_ins hw ((b - 1) / 65536) ((b - 1) % 65536 + 1) (by omega) _ t1 t2 t3
    rw [show (b - 1) / 65536 * 65536 + ((b - 1) % 65536 + 1) = b by omega] at hSb
    have hab' := hmono (show a ≤ b by omega)
    by_cases hge : giPos gS ≥ r.slots.length
    · rw [if_pos hge]
      have hiS : giPos gS = r.slots.length := by omega
      rw [hiS] at hSa s2
      rw [if_neg (by omega)] at hSa
      have hSb' := slotsCnt_ins hw ((b - 1) / 65536) ((b - 1) % 65536 + 1) (by omega) r.slots.length (Nat.le_refl _)
        (fun j hj => by have := s2 j hj; omega) (fun j hj hjl => by omega)
      rw [show (b - 1) / 65536 * 65536 + ((b - 1) % 65536 + 1) = b by omega, if_neg (by omega)] at hSb'
      omega
    · rw [if_neg hge]
      have hlt : giPos gS < r.slots.length := by omega
      have hwf := (slotAt_wf hw hlt).2
      by_cases hk : a / 65536 = (b - 1) / 65536
      · rw [if_pos hk]
        have hSb' := slotsCnt_ins hw (a / 65536) ((b - 1) % 65536 + 1) (by omega) _ s1 s2 s3
        rw [show a / 65536 * 65536 + ((b - 1) % 65536 + 1) = b by omega] at hSb'
        by_cases hp : kAt r.slots (giPos gS) = a / 65536
        · rw [if_pos hp]
          rw [if_pos ⟨hlt, hp⟩] at hSa hSb'
          have hc := has_cardInRange _ (wfQ_of_wf hwf) (a % 65536) ((b - 1) % 65536 + 1) (by omega) (by omega)
          have hcm := cnt_mono (cAt r.slots (giPos gS)).has (show a % 65536 ≤ (b - 1) % 65536 + 1 by omega)
          unfold IsCardInRange at hc
          omega
        · rw [if_neg hp]
          rw [if_neg (fun hc => hp hc.2)] at hSa hSb'
          omega
      · rw [if_neg hk]
        have hkl : a / 65536 < (b - 1) / 65536 := by omega
        have hle : giPos gS ≤ giPos gE := by
          apply Classical.byContradiction
          intro hc
          have h1 := s2 (giPos gE) (by omega)
          have h2 := t3 (giPos gE) (Nat.le_refl _) (by omega)
          omega
        simp only [beq_iff_eq, decide_eq_true_eq, ge_iff_le]
        -- the last partial container
        have hr3 : (if 0 ≤ gE then (cAt r.slots gE.toNat).cardInRangeQ 0 ((b - 1) % 65536 + 1) else 0) =
            (if giPos gE < r.slots.length ∧ kAt r.slots (giPos gE) = (b - 1) / 65536 then
              (cnt (cAt r.slots (giPos gE)).has ((b - 1) % 65536 + 1) : Int) else 0) := by
          by_cases hg : 0 ≤ gE
          · have hpe := t4.mp hg
            rw [if_pos hg, if_pos hpe, eE2 hg]
            have hc := has_cardInRange _ (wfQ_of_wf (slotAt_wf hw hpe.1).2) 0 ((b - 1) % 65536 + 1) (by omega) (by omega)
            unfold IsCardInRange at hc
            rw [cnt_zero] at hc
            rw [hc]; rfl
          · rw [if_neg hg, if_neg (fun hc => hg (t4.mpr hc))]
        rw [hr3]
        generalize (if giPos gE < r.slots.length ∧ kAt r.slots (giPos gE) = (b - 1) / 65536 then
              (cnt (cAt r.slots (giPos gE)).has ((b - 1) % 65536 + 1) : Int) else 0) = E3 at hSb ⊢
        by_cases hp : kAt r.slots (giPos gS) = a / 65536
        · rw [if_pos hp, if_pos hp]
          rw [if_pos ⟨hlt, hp⟩] at hSa
          have hle' : giPos gS + 1 ≤ giPos gE := by
            apply Classical.byContradiction
            intro hc
            have h2 := t3 (giPos gS) (by omega) hlt
            omega
          have hsplit := cardSum_take_drop r.slots hle'
          have hsucc := cardSum_take_succ hlt
          have hc := has_cardInRange _ (wfQ_of_wf hwf) (a % 65536) 65536 (by omega) (Nat.le_refl _)
          have hcm := cnt_mono (cAt r.slots (giPos gS)).has (show a % 65536 ≤ 65536 by omega)
          have hcard := has_card _ (wfQ_of_wf hwf)
          unfold IsCardInRange at hc
          omega
        · rw [if_neg hp, if_neg hp]
          rw [if_neg (fun hc => hp hc.2)] at hSa
          have hsplit := cardSum_take_drop r.slots hle
          omega

end RModel.Impl
