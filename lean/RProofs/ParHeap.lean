import RProofs.LazyOps
import RModel.Impl.ParData
/-!
The container heap of `ParHeapOr` / `ParAnd` (`RModel/Impl/ParData.lean`) groups the containers of the operands by key.
-/
set_option linter.unusedSimpArgs false
set_option linter.unusedVariables false
namespace RModel.Impl.ParData
open RModel RModel.Impl

/-! ### `keyAt` through the array moves -/

theorem keyAt_eq (h : Array HEnt) (i : Nat) : keyAt h i = (h[i]?.getD default).key := by
  simp [keyAt, Array.getD_eq_getD_getElem?]

theorem getElem?_swapIfInBounds (h : Array HEnt) (i j k : Nat) (hi : i < h.size) (hj : j < h.size) :
    (h.swapIfInBounds i j)[k]? = if k = i then h[j]? else if k = j then h[i]? else h[k]? := by
  by_cases hk : k < h.size
  · rw [Array.getElem?_eq_getElem (by simpa using hk), Array.getElem_swapIfInBounds]
    grind
  · rw [Array.getElem?_eq_none (by simpa using hk)]
    grind

theorem keyAt_swap (h : Array HEnt) (i j k : Nat) (hi : i < h.size) (hj : j < h.size) :
    keyAt (h.swapIfInBounds i j) k = if k = i then keyAt h j else if k = j then keyAt h i else keyAt h k := by
  simp only [keyAt_eq, getElem?_swapIfInBounds h i j k hi hj]
  split
  · rfl
  · split <;> rfl

theorem swapIfInBounds_perm (h : Array HEnt) (i j : Nat) : (h.swapIfInBounds i j).toList.Perm h.toList := by
  unfold Array.swapIfInBounds
  split
  · split
    · exact (Array.swap_perm _ _).toList
    · exact List.Perm.refl _
  · exact List.Perm.refl _

/-! ### `heapDown` -/

theorem size_heapDown (h : Array HEnt) (i n : Nat) : (heapDown h i n).size = h.size := by
  fun_induction heapDown h i n <;> simp_all

theorem heapDown_perm (h : Array HEnt) (i n : Nat) : (heapDown h i n).toList.Perm h.toList := by
  fun_induction heapDown h i n
  · exact List.Perm.refl _
  · rename_i ih
    exact ih.trans (swapIfInBounds_perm _ _ _)
  · exact List.Perm.refl _

/-- `down(i, n)` does not touch the indices below `i` nor those from `n` on -/
theorem heapDown_getElem? (h : Array HEnt) (i n k : Nat) (hn : n ≤ h.size) (hk : k < i ∨ n ≤ k) :
    (heapDown h i n)[k]? = h[k]? := by
  fun_induction heapDown h i n
  · rfl
  · rename_i h i hlt j1 j hj ih
    have hjd : j = 2 * i + 1 ∨ (j = 2 * i + 2 ∧ 2 * i + 2 < n) := by
      simp only [j, j1]; split <;> simp_all
    clear_value j
    rw [ih (by simpa using hn) (by omega)]
    rw [getElem?_swapIfInBounds h i j k (by omega) (by omega)]
    have : k ≠ i := by omega
    have : k ≠ j := by omega
    simp [*]
  · rfl

theorem heapDown_heap (h : Array HEnt) (i n lo : Nat) (hn : n ≤ h.size) (hlo : lo ≤ i)
    (H1 : ∀ j, 0 < j → j < n → lo ≤ (j - 1) / 2 → (j - 1) / 2 ≠ i → keyAt h ((j - 1) / 2) ≤ keyAt h j)
    (H2 : 0 < i → lo ≤ (i - 1) / 2 → ∀ j, 0 < j → j < n → (j - 1) / 2 = i → keyAt h ((i - 1) / 2) ≤ keyAt h j) :
    ∀ j, 0 < j → j < n → lo ≤ (j - 1) / 2 →
      keyAt (heapDown h i n) ((j - 1) / 2) ≤ keyAt (heapDown h i n) j := by
  fun_induction heapDown h i n
  · intro j hj0 hjn hjl
    exact H1 j hj0 hjn hjl (by omega)
  · rename_i h i hlt j1 j hj ih
    have hjd : (j = 2 * i + 1 ∧ (2 * i + 2 < n → keyAt h (2 * i + 1) ≤ keyAt h (2 * i + 2))) ∨
        (j = 2 * i + 2 ∧ 2 * i + 2 < n ∧ keyAt h (2 * i + 2) < keyAt h (2 * i + 1)) := by
      simp only [j, j1]; split <;> simp_all <;> omega
    clear_value j
    have hi : i < h.size := by omega
    have hj' : j < h.size := by omega
    apply ih (by simpa using hn) (by omega)
    · intro c hc0 hcn hcl hcj
      rw [keyAt_swap h i j _ hi hj', keyAt_swap h i j _ hi hj']
      by_cases hci : (c - 1) / 2 = i
      · have hc : c = 2 * i + 1 ∨ c = 2 * i + 2 := by omega
        rw [if_pos hci]
        have hne : c ≠ i := by omega
        rw [if_neg hne]
        rcases hjd with ⟨rfl, hm⟩ | ⟨rfl, h2, hm⟩ <;> rcases hc with rfl | rfl <;> simp <;> omega
      · rw [if_neg hci, if_neg hcj]
        by_cases hc : c = i
        · subst hc
          rw [if_pos rfl]
          have := H2 (by omega) hcl j (by omega) (by omega) (by omega)
          exact this
        · have hcj2 : c ≠ j := by omega
          rw [if_neg hc, if_neg hcj2]
          exact H1 c hc0 hcn hcl hci
    · intro _ _ c hc0 hcn hcj
      rw [keyAt_swap h i j _ hi hj', keyAt_swap h i j _ hi hj']
      have e1 : (j - 1) / 2 = i := by omega
      rw [e1, if_pos rfl]
      have hne : c ≠ i := by omega
      have hne2 : c ≠ j := by omega
      rw [if_neg hne, if_neg hne2]
      have := H1 c hc0 hcn (by omega) (by omega)
      rw [hcj] at this
      exact this
  · rename_i h i hlt j1 j hj
    have hjd : (j = 2 * i + 1 ∧ (2 * i + 2 < n → keyAt h (2 * i + 1) ≤ keyAt h (2 * i + 2))) ∨
        (j = 2 * i + 2 ∧ 2 * i + 2 < n ∧ keyAt h (2 * i + 2) < keyAt h (2 * i + 1)) := by
      simp only [j, j1]; split <;> simp_all <;> omega
    clear_value j
    intro c hc0 hcn hcl
    by_cases hci : (c - 1) / 2 = i
    · have : c = 2 * i + 1 ∨ c = 2 * i + 2 := by omega
      rw [hci]
      rcases hjd with ⟨rfl, hm⟩ | ⟨rfl, h2, hm⟩ <;> rcases this with rfl | rfl <;> omega
    · exact H1 c hc0 hcn hcl hci

/-! ### the heap invariant and the multiset of remaining (key, container) pairs -/

/-- the slots a cursor still has to hand out -/
def conts (e : HEnt) : List (Nat × Cont) := (e.key, e.c) :: e.rest.map fun s => (s.key, s.c)

/-- all the slots the heap still has to hand out -/
def remOf (h : Array HEnt) : List (Nat × Cont) := h.toList.flatMap conts

def EntOk (e : HEnt) : Prop := (conts e).Pairwise fun a b => a.1 < b.1

def HeapProp (h : Array HEnt) (n : Nat) : Prop :=
  ∀ j, 0 < j → j < n → keyAt h ((j - 1) / 2) ≤ keyAt h j

structure Inv (h : Array HEnt) : Prop where
  heap : HeapProp h h.size
  ents : ∀ e ∈ h.toList, EntOk e

theorem heapProp_root {h : Array HEnt} {n : Nat} (H : HeapProp h n) : ∀ j, j < n → keyAt h 0 ≤ keyAt h j := by
  intro j
  induction j using Nat.strongRecOn with
  | _ j ih =>
    intro hj
    by_cases h0 : j = 0
    · subst h0; exact Nat.le_refl _
    · exact Nat.le_trans (ih ((j - 1) / 2) (by omega) (by omega)) (H j (by omega) hj)

theorem remOf_perm {h h' : Array HEnt} (p : h'.toList.Perm h.toList) : (remOf h').Perm (remOf h) :=
  List.Perm.flatMap_right _ p

theorem ents_perm {h h' : Array HEnt} (p : h'.toList.Perm h.toList) (H : ∀ e ∈ h.toList, EntOk e) :
    ∀ e ∈ h'.toList, EntOk e := fun e he => H e (p.mem_iff.mp he)

theorem remOf_eq_nil {h : Array HEnt} (H : remOf h = []) : h.size = 0 := by
  cases h with
  | mk l =>
    cases l with
    | nil => rfl
    | cons e t => simp [remOf, conts] at H

/-- the root key is the minimum of all remaining keys -/
theorem inv_root_le {h : Array HEnt} (H : Inv h) : ∀ x ∈ remOf h, keyAt h 0 ≤ x.1 := by
  intro x hx
  simp only [remOf, List.mem_flatMap] at hx
  obtain ⟨e, he, hxe⟩ := hx
  obtain ⟨j, hj, rfl⟩ := List.mem_iff_getElem.mp he
  have h1 := heapProp_root H.heap j (by simpa using hj)
  have h2 : keyAt h j = (h.toList[j]).key := by
    simp [keyAt_eq, Array.getElem?_eq_getElem (by simpa using hj : j < h.size)]
  have h3 := H.ents _ he
  simp only [EntOk, conts, List.pairwise_cons] at h3
  simp only [conts, List.mem_cons] at hxe
  rcases hxe with rfl | hxe
  · omega
  · have := h3.1 x hxe
    simp only [Array.getElem_toList] at this h2
    omega

/-! ### `popIncrementing` -/

theorem toList_pop_append {a : Array HEnt} {e : HEnt} (H : a[a.size - 1]? = some e) :
    a.toList = a.pop.toList ++ [e] := by
  obtain ⟨l⟩ := a
  have hne : l ≠ [] := by
    intro h0; subst h0; simp at H
  have hl : l.getLast hne = e := by
    rw [List.getLast_eq_getElem]
    have : l.length - 1 < l.length := by
      have := List.length_pos_iff.mpr hne; omega
    simp [List.getElem?_eq_getElem this] at H
    exact H
  simp only [Array.toList_pop]
  rw [← hl, List.dropLast_concat_getLast]

theorem keyAt_pop (a : Array HEnt) (j : Nat) (hj : j < a.size - 1) : keyAt a.pop j = keyAt a j := by
  simp only [keyAt_eq, Array.getElem?_pop, hj, if_true]

theorem keyAt_set0 (a : Array HEnt) (e : HEnt) (j : Nat) (hj : j ≠ 0) : keyAt (a.setIfInBounds 0 e) j = keyAt a j := by
  simp only [keyAt_eq, Array.getElem?_setIfInBounds]
  rw [if_neg (by omega)]

theorem heapPopInc_spec {h : Array HEnt} (H : Inv h) (h0 : 0 < h.size) :
    Inv (heapPopInc h).2 ∧ ((heapPopInc h).1 :: remOf (heapPopInc h).2).Perm (remOf h) ∧
      (heapPopInc h).1.1 = keyAt h 0 := by
  obtain ⟨e0, t, hl⟩ : ∃ e0 t, h.toList = e0 :: t := by
    obtain ⟨l⟩ := h
    cases l with
    | nil => simp at h0
    | cons e0 t => exact ⟨e0, t, rfl⟩
  have hg0 : h[0]? = some e0 := by
    rw [← Array.getElem?_toList, hl]; rfl
  have hk : h.getD 0 default = e0 := by simp [Array.getD_eq_getD_getElem?, hg0]
  have hkey : keyAt h 0 = e0.key := by simp [keyAt, hk]
  have he0 := H.ents e0 (by simp [hl])
  have hheap := H.heap
  unfold heapPopInc
  simp only [hk]
  split
  · rename_i s r hr
    -- `heap.Fix(h, 0)`
    refine ⟨⟨?_, ?_⟩, ?_, hkey.symm⟩
    · intro j hj0 hjn
      simp only [size_heapDown, Array.size_setIfInBounds] at hjn
      refine heapDown_heap _ 0 _ 0 (by simp) (Nat.le_refl _) ?_ ?_ j hj0 hjn (Nat.zero_le _)
      · intro j hj0 hjn _ hne
        rw [keyAt_set0 _ _ _ hne, keyAt_set0 _ _ _ (by omega)]
        exact hheap j hj0 hjn
      · intro h00; omega
    · apply ents_perm (heapDown_perm _ _ _)
      intro e he
      simp only [Array.toList_setIfInBounds, hl, List.set_cons_zero, List.mem_cons] at he
      rcases he with rfl | he
      · simp only [EntOk, conts, hr, List.map_cons, List.pairwise_cons] at he0 ⊢
        exact he0.2
      · exact H.ents e (by simp [hl, he])
    · refine (List.Perm.cons _ (remOf_perm (heapDown_perm _ _ _))).trans ?_
      simp [remOf, conts, hr, hl]
  · rename_i hr
    -- `heap.Pop(h)`
    have hn1 : h.size - 1 < h.size := by omega
    have hsz2 : (h.swapIfInBounds 0 (h.size - 1)).size = h.size := Array.size_swapIfInBounds
    have hlast : (heapDown (h.swapIfInBounds 0 (h.size - 1)) 0 (h.size - 1))[
        (heapDown (h.swapIfInBounds 0 (h.size - 1)) 0 (h.size - 1)).size - 1]? = some e0 := by
      rw [size_heapDown, hsz2, heapDown_getElem? _ _ _ _ (by omega) (Or.inr (Nat.le_refl _)),
        getElem?_swapIfInBounds h 0 (h.size - 1) _ h0 hn1]
      split
      · rename_i h1; rw [h1]; exact hg0
      · rw [if_pos rfl]; exact hg0
    have hperm := (heapDown_perm (h.swapIfInBounds 0 (h.size - 1)) 0 (h.size - 1)).trans
      (swapIfInBounds_perm h 0 (h.size - 1))
    have hsplit := toList_pop_append hlast
    refine ⟨⟨?_, ?_⟩, ?_, hkey.symm⟩
    · intro j hj0 hjn
      simp only [Array.size_pop, size_heapDown, hsz2] at hjn
      rw [keyAt_pop _ _ (by rw [size_heapDown, hsz2]; omega), keyAt_pop _ _ (by rw [size_heapDown, hsz2]; exact hjn)]
      refine heapDown_heap _ 0 _ 0 (by rw [hsz2]; omega) (Nat.le_refl _) ?_ ?_ j hj0 hjn (Nat.zero_le _)
      · intro j hj0 hjn _ hne
        rw [keyAt_swap h 0 (h.size - 1) _ h0 hn1, keyAt_swap h 0 (h.size - 1) _ h0 hn1]
        rw [if_neg hne, if_neg (by omega), if_neg (by omega), if_neg (by omega)]
        exact hheap j hj0 (by omega)
      · intro h00; omega
    · intro e he
      apply ents_perm hperm H.ents
      rw [hsplit]; exact List.mem_append_left _ he
    · have h1 : (remOf (heapDown (h.swapIfInBounds 0 (h.size - 1)) 0 (h.size - 1))).Perm (remOf h) :=
        remOf_perm hperm
      refine List.Perm.trans ?_ h1
      simp only [remOf] at *
      rw [hsplit]
      simp only [List.flatMap_append, List.flatMap_cons, List.flatMap_nil, conts, hr, List.map_nil, List.append_nil]
      exact List.perm_append_comm (l₁ := [(e0.key, e0.c)])

theorem root_mem_remOf {h : Array HEnt} (H : Inv h) (h0 : 0 < h.size) : ∃ c, (keyAt h 0, c) ∈ remOf h := by
  obtain ⟨_, hp, hk⟩ := heapPopInc_spec H h0
  refine ⟨(heapPopInc h).1.2, ?_⟩
  rw [← hk]
  exact hp.mem_iff.mp (by simp)

/-! ### `Next` -/

theorem heapCollect_spec (key : Nat) : ∀ (f : Nat) (h : Array HEnt) (acc : List Cont), Inv h →
    (∀ x ∈ remOf h, key ≤ x.1) → (remOf h).length ≤ f →
    ∃ cs, (heapCollect key f h acc).1 = acc.reverse ++ cs ∧ Inv (heapCollect key f h acc).2 ∧
      (cs.map (fun c => (key, c)) ++ remOf (heapCollect key f h acc).2).Perm (remOf h) ∧
      ∀ x ∈ remOf (heapCollect key f h acc).2, key < x.1 := by
  intro f
  induction f with
  | zero =>
    intro h acc H hge hlen
    have hnil : remOf h = [] := List.eq_nil_of_length_eq_zero (by omega)
    refine ⟨[], by simp [heapCollect], H, by simp [heapCollect], ?_⟩
    simp [heapCollect, hnil]
  | succ f ih =>
    intro h acc H hge hlen
    unfold heapCollect
    split
    · rename_i hc
      simp only [Bool.and_eq_true, decide_eq_true_eq, beq_iff_eq] at hc
      obtain ⟨hI, hp, hk⟩ := heapPopInc_spec H hc.1
      have hlen' : (remOf (heapPopInc h).2).length ≤ f := by
        have := hp.length_eq
        simp only [List.length_cons] at this
        omega
      have hge' : ∀ x ∈ remOf (heapPopInc h).2, key ≤ x.1 := fun x hx =>
        hge x (hp.mem_iff.mp (List.mem_cons_of_mem _ hx))
      obtain ⟨cs, e1, e2, e3, e4⟩ := ih (heapPopInc h).2 ((heapPopInc h).1.2 :: acc) hI hge' hlen'
      refine ⟨(heapPopInc h).1.2 :: cs, ?_, e2, ?_, e4⟩
      · rw [e1]; simp
      · refine List.Perm.trans ?_ hp
        have : (heapPopInc h).1 = (key, (heapPopInc h).1.2) := by
          rw [← hc.2, ← hk]
        simp only [List.map_cons, List.cons_append]
        rw [← this]
        exact List.Perm.cons _ e3
    · rename_i hc
      refine ⟨[], by simp, H, by simp, ?_⟩
      intro x hx
      by_cases h0 : 0 < h.size
      · obtain ⟨c, hcm⟩ := root_mem_remOf H h0
        have h1 := hge _ hcm
        have h2 := inv_root_le H x hx
        have h3 : keyAt h 0 ≠ key := by
          intro he; apply hc; simp [h0, he]
        simp only at h1
        omega
      · have : h = #[] := by
          apply Array.eq_empty_of_size_eq_zero; omega
        subst this
        simp [remOf] at hx

theorem heapNext_spec {f : Nat} {h : Array HEnt} (H : Inv h) (h0 : 0 < h.size) (hlen : (remOf h).length ≤ f + 1) :
    Inv (heapNext f h).2 ∧ (heapNext f h).1.2 ≠ [] ∧
      ((heapNext f h).1.2.map (fun c => ((heapNext f h).1.1, c)) ++ remOf (heapNext f h).2).Perm (remOf h) ∧
      ∀ x ∈ remOf (heapNext f h).2, (heapNext f h).1.1 < x.1 := by
  obtain ⟨hI, hp, hk⟩ := heapPopInc_spec H h0
  have hlen' : (remOf (heapPopInc h).2).length ≤ f := by
    have := hp.length_eq
    simp only [List.length_cons] at this
    omega
  have hge' : ∀ x ∈ remOf (heapPopInc h).2, (heapPopInc h).1.1 ≤ x.1 := fun x hx => by
    rw [hk]
    exact inv_root_le H x (hp.mem_iff.mp (List.mem_cons_of_mem _ hx))
  obtain ⟨cs, e1, e2, e3, e4⟩ :=
    heapCollect_spec (heapPopInc h).1.1 f (heapPopInc h).2 [(heapPopInc h).1.2] hI hge' hlen'
  simp only [heapNext]
  refine ⟨e2, ?_, ?_, e4⟩
  · rw [e1]; simp
  · rw [e1]
    refine List.Perm.trans ?_ hp
    simp only [List.reverse_cons, List.reverse_nil, List.nil_append, List.cons_append, List.map_cons]
    exact List.Perm.cons _ e3

/-! ### the loop over `Next` -/

/-- the containers stored under `k` -/
def sel (k : Nat) (xs : List (Nat × Cont)) : List Cont := xs.filterMap fun x => if x.1 = k then some x.2 else none

theorem sel_map_same (k : Nat) (cs : List Cont) : sel k (cs.map fun c => (k, c)) = cs := by
  induction cs with
  | nil => rfl
  | cons c t ih => simp [sel] at ih ⊢; exact ih

theorem sel_eq_nil {k : Nat} {xs : List (Nat × Cont)} (H : ∀ x ∈ xs, x.1 ≠ k) : sel k xs = [] := by
  induction xs with
  | nil => rfl
  | cons x t ih =>
    have h1 := H x (by simp)
    have h2 := ih fun y hy => H y (by simp [hy])
    simp only [sel, List.filterMap_cons, if_neg h1] at h2 ⊢
    exact h2

theorem sel_append (k : Nat) (xs ys : List (Nat × Cont)) : sel k (xs ++ ys) = sel k xs ++ sel k ys := by
  simp [sel]

theorem heapGroups_spec : ∀ (f : Nat) (h : Array HEnt), Inv h → (remOf h).length ≤ f →
    (heapGroups f h).Pairwise (fun a b => a.1 < b.1) ∧
    (∀ g ∈ heapGroups f h, (∃ x ∈ remOf h, x.1 = g.1) ∧ g.2 ≠ [] ∧ g.2.Perm (sel g.1 (remOf h))) ∧
    (∀ x ∈ remOf h, ∃ g ∈ heapGroups f h, g.1 = x.1) := by
  intro f
  induction f with
  | zero =>
    intro h H hlen
    have hnil : remOf h = [] := List.eq_nil_of_length_eq_zero (by omega)
    simp [heapGroups, hnil]
  | succ f ih =>
    intro h H hlen
    unfold heapGroups
    split
    · rename_i hs
      have : h = #[] := by
        apply Array.eq_empty_of_size_eq_zero; simpa using hs
      subst this
      simp [remOf]
    · rename_i hs
      have h0 : 0 < h.size := by
        simp only [beq_iff_eq] at hs; omega
      obtain ⟨hI, hne, hp, hgt⟩ := heapNext_spec H h0 hlen
      have hlen' : (remOf (heapNext f h).2).length ≤ f := by
        have := hp.length_eq
        have : 0 < (heapNext f h).1.2.length := List.length_pos_iff.mpr hne
        simp only [List.length_append, List.length_map] at *
        omega
      obtain ⟨i1, i2, i3⟩ := ih (heapNext f h).2 hI hlen'
      refine ⟨?_, ?_, ?_⟩
      · rw [List.pairwise_cons]
        refine ⟨?_, i1⟩
        intro g hg
        obtain ⟨⟨x, hx, hxg⟩, -⟩ := i2 g hg
        rw [← hxg]; exact hgt x hx
      · intro g hg
        rw [List.mem_cons] at hg
        rcases hg with rfl | hg
        · refine ⟨?_, hne, ?_⟩
          · obtain ⟨c, t, hct⟩ := List.exists_cons_of_ne_nil hne
            exact ⟨((heapNext f h).1.1, c), hp.mem_iff.mp (by simp [hct]), rfl⟩
          · have := (hp.filterMap (fun x => if x.1 = (heapNext f h).1.1 then some x.2 else none)).symm
            refine List.Perm.trans ?_ this.symm
            show List.Perm _ (sel _ _)
            rw [sel_append, sel_map_same, sel_eq_nil (fun x hx => Nat.ne_of_gt (hgt x hx))]
            simp
        · obtain ⟨⟨x, hx, hxg⟩, j2, j3⟩ := i2 g hg
          refine ⟨⟨x, hp.mem_iff.mp (List.mem_append_right _ hx), hxg⟩, j2, ?_⟩
          have := (hp.filterMap (fun x => if x.1 = g.1 then some x.2 else none))
          refine List.Perm.trans ?_ this
          show List.Perm _ (sel _ _)
          have hlt : (heapNext f h).1.1 < g.1 := by rw [← hxg]; exact hgt x hx
          rw [sel_append, sel_eq_nil (k := g.1) (xs := List.map _ _) (by
            intro y hy
            simp only [List.mem_map] at hy
            obtain ⟨c, _, rfl⟩ := hy
            simp only; omega)]
          simpa using j3
      · intro x hx
        have := hp.mem_iff.mpr hx
        rw [List.mem_append] at this
        rcases this with hm | hm
        · simp only [List.mem_map] at hm
          obtain ⟨c, _, rfl⟩ := hm
          exact ⟨_, List.mem_cons_self, rfl⟩
        · obtain ⟨g, hg, hgx⟩ := i3 x hm
          exact ⟨g, List.mem_cons_of_mem _ hg, hgx⟩

/-! ### `heap.Init` -/

theorem heapInitFrom_spec (n : Nat) : ∀ (k : Nat) (h : Array HEnt), n ≤ h.size →
    (∀ j, 0 < j → j < n → k ≤ (j - 1) / 2 → keyAt h ((j - 1) / 2) ≤ keyAt h j) →
    (heapInitFrom n k h).toList.Perm h.toList ∧ HeapProp (heapInitFrom n k h) n := by
  intro k
  induction k with
  | zero =>
    intro h hn H
    exact ⟨List.Perm.refl _, fun j hj0 hjn => H j hj0 hjn (Nat.zero_le _)⟩
  | succ k ih =>
    intro h hn H
    simp only [heapInitFrom]
    have h1 := heapDown_heap h k n k hn (Nat.le_refl _)
      (fun j hj0 hjn hjl hne => H j hj0 hjn (by omega)) (fun hk0 hkl => by omega)
    obtain ⟨p, q⟩ := ih (heapDown h k n) (by rw [size_heapDown]; exact hn) h1
    exact ⟨p.trans (heapDown_perm _ _ _), q⟩

theorem heapInit_spec (h : Array HEnt) (He : ∀ e ∈ h.toList, EntOk e) :
    Inv (heapInit h) ∧ (remOf (heapInit h)).Perm (remOf h) := by
  obtain ⟨p, q⟩ := heapInitFrom_spec h.size (h.size / 2) h (Nat.le_refl _) (fun j hj0 hjn hjl => by omega)
  have hs : (heapInit h).size = h.size := by
    have := p.length_eq
    simpa [heapInit] using this
  refine ⟨⟨?_, ents_perm p He⟩, remOf_perm p⟩
  rw [hs]; exact q

/-! ### the work items -/

def KeysSorted (r : Rep) : Prop := r.slots.Pairwise (fun s t => s.key < t.key)

def slotsOf (r : Rep) : List (Nat × Cont) := r.slots.map fun s => (s.key, s.c)

theorem remOf_start (l : List Rep) :
    remOf (l.filterMap fun r => entOf r.slots).toArray = l.flatMap slotsOf := by
  induction l with
  | nil => rfl
  | cons r t ih =>
    simp only [remOf] at ih
    cases hr : r.slots with
    | nil =>
      have e : entOf ([] : List Slot) = none := rfl
      simp only [remOf, List.filterMap_cons, e, List.flatMap_cons, ih, slotsOf, hr, List.map_nil, List.nil_append]
    | cons s u =>
      have e : entOf (s :: u) = some { key := s.key, c := s.c, rest := u } := rfl
      simp only [remOf, List.filterMap_cons, e, List.flatMap_cons, ih, slotsOf, hr, List.map_cons, conts,
        List.cons_append]

theorem ents_start (l : List Rep) (hl : ∀ r ∈ l, KeysSorted r) :
    ∀ e ∈ (l.filterMap fun r => entOf r.slots).toArray.toList, EntOk e := by
  intro e he
  simp only [List.mem_filterMap] at he
  obtain ⟨r, hr, hre⟩ := he
  have := hl r hr
  unfold KeysSorted at this
  cases hs : r.slots with
  | nil => simp [hs, entOf] at hre
  | cons s u =>
    simp only [hs, entOf, Option.some.injEq] at hre this
    subst hre
    simp only [EntOk, conts, List.pairwise_cons, List.pairwise_map] at this ⊢
    refine ⟨?_, this.2⟩
    intro x hx
    simp only [List.mem_map] at hx
    obtain ⟨y, hy, rfl⟩ := hx
    exact this.1 y hy

theorem sel_sorted (k : Nat) : ∀ (sl : List Slot), sl.Pairwise (fun s t => s.key < t.key) →
    sel k (sl.map fun s => (s.key, s.c)) = (LazyOps.findCont k sl).toList := by
  intro sl
  induction sl with
  | nil => intro _; rfl
  | cons s t ih =>
    intro hp
    rw [List.pairwise_cons] at hp
    by_cases hk : s.key = k
    · have : sel k (t.map fun s => (s.key, s.c)) = [] := by
        apply sel_eq_nil
        intro x hx
        simp only [List.mem_map] at hx
        obtain ⟨y, hy, rfl⟩ := hx
        have := hp.1 y hy
        simp only; omega
      simp only [sel] at this
      simp [sel, LazyOps.findCont, hk, this]
    · have := ih hp.2
      simp only [sel] at this
      simp [sel, LazyOps.findCont, hk, this]

theorem sel_start (k : Nat) (l : List Rep) (hl : ∀ r ∈ l, KeysSorted r) :
    sel k (l.flatMap slotsOf) = l.filterMap fun r => LazyOps.findCont k r.slots := by
  induction l with
  | nil => rfl
  | cons r t ih =>
    have h1 := sel_sorted k r.slots (hl r (by simp))
    have h2 := ih fun r hr => hl r (by simp [hr])
    rw [List.flatMap_cons, sel_append, h2, slotsOf, h1]
    cases hf : LazyOps.findCont k r.slots <;> simp [List.filterMap_cons, hf]

theorem length_start (l : List Rep) : (l.flatMap slotsOf).length ≤ heapFuel l := by
  have : (l.flatMap slotsOf).length = (l.map (·.slots.length)).sum := by
    induction l with
    | nil => rfl
    | cons r t ih => simp [slotsOf, ih]
  simp only [heapFuel]; omega

theorem workItems_spec (l : List Rep) (hl : ∀ r ∈ l, KeysSorted r) :
    (workItems l).Pairwise (fun a b => a.1 < b.1) ∧
    (∀ g ∈ workItems l, g.2 ≠ [] ∧ g.2.Perm (l.filterMap fun r => LazyOps.findCont g.1 r.slots)) ∧
    (∀ x ∈ l.flatMap slotsOf, ∃ g ∈ workItems l, g.1 = x.1) := by
  obtain ⟨hI, hp⟩ := heapInit_spec _ (ents_start l hl)
  rw [remOf_start] at hp
  have hlen : (remOf (heapOf l)).length ≤ heapFuel l := by
    have := hp.length_eq
    have := length_start l
    simp only [heapOf]; omega
  obtain ⟨i1, i2, i3⟩ := heapGroups_spec (heapFuel l) (heapOf l) hI hlen
  refine ⟨i1, ?_, ?_⟩
  · intro g hg
    obtain ⟨-, j2, j3⟩ := i2 g hg
    refine ⟨j2, ?_⟩
    rw [← sel_start g.1 l hl]
    exact j3.trans (hp.filterMap _)
  · intro x hx
    exact i3 x (hp.mem_iff.mpr hx)

theorem workItems_sorted (l : List Rep) (hl : ∀ r ∈ l, KeysSorted r) :
    (workItems l).Pairwise (fun a b => a.1 < b.1) := (workItems_spec l hl).1

theorem workItems_perm (l : List Rep) (hl : ∀ r ∈ l, KeysSorted r) :
    ∀ g ∈ workItems l, g.2 ≠ [] ∧ g.2.Perm (l.filterMap fun r => LazyOps.findCont g.1 r.slots) :=
  (workItems_spec l hl).2.1

theorem workItems_complete (l : List Rep) (hl : ∀ r ∈ l, KeysSorted r) :
    ∀ r ∈ l, ∀ s ∈ r.slots, ∃ g ∈ workItems l, g.1 = s.key := by
  intro r hr s hs
  exact (workItems_spec l hl).2.2 (s.key, s.c)
    (List.mem_flatMap.mpr ⟨r, hr, List.mem_map.mpr ⟨s, hs, rfl⟩⟩)

end RModel.Impl.ParData
