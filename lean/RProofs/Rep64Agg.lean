import RProofs.Rep64Mut
import RProofs.ParData
import RModel.Impl.Rep64Agg
/-!
# `roaring64.FastOr` / `FastAnd` at representation level

* `Ops32.exact_sound`, `Ops32.exact_soundBin`: the exact 32-bit models of `Impl/RepMut.lean` (`Rep.flip`, `Rep.addRange`,
  `Rep.removeRange`, `Rep.iand`, `Rep.ior`, `Rep.iandNot`) meet the hypotheses `Ops32.Sound` / `Ops32.SoundBin` under which the
  bucket walks of `Rep64Range.lean` / `Rep64InPlace.lean` were proved — so every parametric `Rep64` theorem has a closed instance
  whose 32-bit layer is the exact model of the Go code.
* `Rep64.toBSet_fastOr`, `Rep64.wf_fastOr`, `Rep64.toBSet_fastAnd`, `Rep64.wf_fastAnd`: the aggregates compute the union /
  intersection (`BSet.unionL` / `BSet.interL`) of the inputs' sets and return well-formed bitmaps, for every sound 32-bit layer;
  `…_exact`: the closed instances.
Core Lean only; no `native_decide`, `bv_decide`, axioms, `sorry`.
-/
namespace RModel.Impl
open RModel RModel.BSet RModel.Driver ContOps RepOps R64Ops

theorem Ops32.exact_sound : Ops32.exact.Sound where
  mem_flip r s e y hr _ he := by
    show mem (r.flip s e).toBSet y = _
    rw [Rep.mem_flip r hr s e he]
  wf_flip r s e hr _ he := Rep.wf_flip r hr s e he
  mem_addRange r s e y hr _ he := by
    show mem (r.addRange s e).toBSet y = _
    rw [Rep.mem_addRange r hr s e he]
  wf_addRange r s e hr _ he := Rep.wf_addRange r hr s e he
  mem_removeRange r s e y hr _ he := by
    show mem (r.removeRange s e).toBSet y = _
    rw [Rep.mem_removeRange r hr s e, Nat.min_eq_left he]
  wf_removeRange r s e hr _ _ := Rep.wf_removeRange r hr s e

theorem Ops32.exact_soundBin : Ops32.exact.SoundBin where
  mem_iand a b y ha hb := Rep.mem_iand a b ha hb y
  wf_iand a b ha hb := Rep.wf_iand a b ha hb
  mem_ior a b y ha hb := Rep.mem_ior a b ha hb y
  wf_ior a b ha hb := Rep.wf_ior a b ha hb
  mem_iandNot a b y ha hb := Rep.mem_iandNot a b ha hb y
  wf_iandNot a b ha hb := Rep.wf_iandNot a b ha hb

/-! ### `FastOr` -/

theorem foldl_ior64 {o : Ops32} (ho : o.SoundBin) (t : List Rep64) (acc : Rep64) (hacc : acc.wf = true)
    (ht : ∀ r ∈ t, r.wf = true) :
    (t.foldl (Rep64.ior o) acc).wf = true ∧
      (t.foldl (Rep64.ior o) acc).toBSet = (t.map Rep64.toBSet).foldl BSet.union acc.toBSet := by
  induction t generalizing acc with
  | nil => exact ⟨hacc, rfl⟩
  | cons b t ih =>
    have hb := ht b (by simp)
    have := ih (Rep64.ior o acc b) (Rep64.wf_ior ho acc b hacc hb) (fun r hr => ht r (by simp [hr]))
    simp only [List.foldl_cons, List.map_cons]
    rw [← Rep64.toBSet_ior ho acc b hacc hb]
    exact this

/-- **`FastOr` computes the union** of the inputs' sets, for every sound 32-bit layer -/
theorem Rep64.toBSet_fastOr {o : Ops32} (ho : o.SoundBin) (l : List Rep64) (hl : ∀ r ∈ l, r.wf = true) :
    (Rep64.fastOr o l).toBSet = BSet.unionL (l.map Rep64.toBSet) := by
  match l, hl with
  | [], _ => rfl
  | [a], hl =>
    simp only [Rep64.fastOr, Rep64.toBSet_clone a (hl a (by simp)), BSet.unionL, List.map_cons, List.map_nil,
      List.foldl_cons, List.foldl_nil, union_nil_left _ (sinc_rep64 a)]
  | a :: b :: t, hl =>
    have ha := hl a (by simp)
    have hb := hl b (by simp)
    have := foldl_ior64 ho t (Rep64.or2 a b) (Rep64.wf_or2 a b ha hb) (fun r hr => hl r (by simp [hr]))
    simp only [Rep64.fastOr, BSet.unionL, List.map_cons, List.foldl_cons]
    rw [this.2, Rep64.toBSet_or2 a b ha hb, union_nil_left _ (sinc_rep64 a)]

/-- **`FastOr` returns a well-formed bitmap** -/
theorem Rep64.wf_fastOr {o : Ops32} (ho : o.SoundBin) (l : List Rep64) (hl : ∀ r ∈ l, r.wf = true) :
    (Rep64.fastOr o l).wf = true := by
  match l, hl with
  | [], _ => rfl
  | [a], hl => exact Rep64.wf_clone a (hl a (by simp))
  | a :: b :: t, hl =>
    exact (foldl_ior64 ho t (Rep64.or2 a b) (Rep64.wf_or2 a b (hl a (by simp)) (hl b (by simp)))
      (fun r hr => hl r (by simp [hr]))).1

/-! ### `FastAnd` -/

theorem foldl_iand64 {o : Ops32} (ho : o.SoundBin) (t : List Rep64) (acc : Rep64) (hacc : acc.wf = true)
    (ht : ∀ r ∈ t, r.wf = true) :
    (t.foldl (Rep64.iand o) acc).wf = true ∧
      (t.foldl (Rep64.iand o) acc).toBSet = (t.map Rep64.toBSet).foldl BSet.inter acc.toBSet := by
  induction t generalizing acc with
  | nil => exact ⟨hacc, rfl⟩
  | cons b t ih =>
    have hb := ht b (by simp)
    have := ih (Rep64.iand o acc b) (Rep64.wf_iand ho acc b hacc hb) (fun r hr => ht r (by simp [hr]))
    simp only [List.foldl_cons, List.map_cons]
    rw [← Rep64.toBSet_iand ho acc b hacc hb]
    exact this

/-- **`FastAnd` computes the intersection** (`BSet.interL`: the empty list gives the empty bitmap, which is what `FastAnd()` returns) -/
theorem Rep64.toBSet_fastAnd {o : Ops32} (ho : o.SoundBin) (l : List Rep64) (hl : ∀ r ∈ l, r.wf = true) :
    (Rep64.fastAnd o l).toBSet = BSet.interL (l.map Rep64.toBSet) := by
  match l, hl with
  | [], _ => rfl
  | [a], hl =>
    simp only [Rep64.fastAnd, Rep64.toBSet_clone a (hl a (by simp)), BSet.interL, List.map_cons, List.map_nil, List.foldl_nil]
  | a :: b :: t, hl =>
    have ha := hl a (by simp)
    have hb := hl b (by simp)
    have := foldl_iand64 ho t (Rep64.and2 a b) (Rep64.wf_and2 a b ha hb) (fun r hr => hl r (by simp [hr]))
    simp only [Rep64.fastAnd, BSet.interL, List.map_cons, List.foldl_cons]
    rw [this.2, Rep64.toBSet_and2 a b ha hb]

/-- **`FastAnd` returns a well-formed bitmap** -/
theorem Rep64.wf_fastAnd {o : Ops32} (ho : o.SoundBin) (l : List Rep64) (hl : ∀ r ∈ l, r.wf = true) :
    (Rep64.fastAnd o l).wf = true := by
  match l, hl with
  | [], _ => rfl
  | [a], hl => exact Rep64.wf_clone a (hl a (by simp))
  | a :: b :: t, hl =>
    exact (foldl_iand64 ho t (Rep64.and2 a b) (Rep64.wf_and2 a b (hl a (by simp)) (hl b (by simp)))
      (fun r hr => hl r (by simp [hr]))).1

/-! ### the closed instances: the 32-bit layer is the exact model of the Go code -/

theorem Rep64.fastOr_exact (l : List Rep64) (hl : ∀ r ∈ l, r.wf = true) :
    (Rep64.fastOr Ops32.exact l).toBSet = BSet.unionL (l.map Rep64.toBSet) ∧ (Rep64.fastOr Ops32.exact l).wf = true :=
  ⟨Rep64.toBSet_fastOr Ops32.exact_soundBin l hl, Rep64.wf_fastOr Ops32.exact_soundBin l hl⟩

theorem Rep64.fastAnd_exact (l : List Rep64) (hl : ∀ r ∈ l, r.wf = true) :
    (Rep64.fastAnd Ops32.exact l).toBSet = BSet.interL (l.map Rep64.toBSet) ∧ (Rep64.fastAnd Ops32.exact l).wf = true :=
  ⟨Rep64.toBSet_fastAnd Ops32.exact_soundBin l hl, Rep64.wf_fastAnd Ops32.exact_soundBin l hl⟩

/-! ### the hypotheses are satisfiable (`exA`, `exB`, `exC` of `Rep64Mut.lean`) -/

example : (Rep64.fastOr Ops32.exact [exA, exB, exC]).toBSet = BSet.unionL ([exA, exB, exC].map Rep64.toBSet) ∧
    (Rep64.fastOr Ops32.exact [exA, exB, exC]).wf = true :=
  Rep64.fastOr_exact _ (by decide)
example : (Rep64.fastAnd Ops32.exact [exA, exB, exC]).toBSet = BSet.interL ([exA, exB, exC].map Rep64.toBSet) ∧
    (Rep64.fastAnd Ops32.exact [exA, exB, exC]).wf = true :=
  Rep64.fastAnd_exact _ (by decide)
example : (Rep64.fastAnd Ops32.exact [exA, exB, exC]).toBSet = [5, 6, 17179869183, 17179869184] := by
  rw [(Rep64.fastAnd_exact [exA, exB, exC] (by decide)).1]
  decide +kernel

end RModel.Impl
