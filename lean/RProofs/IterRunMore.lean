import RProofs.IterRun
/-!
Iteration protocols, part 2b: the reverse run iterator (`runReverseIterator16`) and `runIterator16.nextMany`.
-/
namespace RModel.Impl.It
open RModel RModel.Impl RModel.Impl.ContOps RModel.Impl.ContQuery RModel.Impl.RunQ

namespace RunRevIt

/-- every member `< cursor` is still to be delivered (largest first) -/
def cursor (it : RunRevIt) : Nat :=
  if 0 < it.curIndexP then rStart it.rs (it.curIndexP - 1) + it.curPosInIndex + 1 else 0

def Inv (it : RunRevIt) : Prop :=
  RunSep it.rs ∧ (∀ p ∈ it.rs, p.1 + p.2 ≤ 65535) ∧ it.curIndexP ≤ it.rs.length ∧
    (0 < it.curIndexP → it.curPosInIndex ≤ rLenF it.rs (it.curIndexP - 1))

/-- the values still to be delivered, ascending (they come out last first) -/
def rem (it : RunRevIt) : List Nat := remBelow (expandRuns it.rs) it.cursor

theorem cursor_pos {it : RunRevIt} (hi : it.Inv) (hp : 0 < it.curIndexP) :
    it.cursor = rStart it.rs (it.curIndexP - 1) + it.curPosInIndex + 1 ∧
      rStart it.rs (it.curIndexP - 1) + it.curPosInIndex ∈ expandRuns it.rs ∧
      rStart it.rs (it.curIndexP - 1) + it.curPosInIndex ≤ 65535 := by
  obtain ⟨hs, hb, hl, hpos⟩ := hi
  have hpos' := hpos hp
  have hl' : it.curIndexP - 1 < it.rs.length := by omega
  have hb' := rEnd_bound hb hl'
  rw [rEnd_eq] at hb'
  refine ⟨by simp only [cursor, hp, if_true], ?_, by omega⟩
  rw [mem_expandRuns, inRuns_idx]
  exact ⟨it.curIndexP - 1, hl', by omega, by rw [rEnd_eq]; omega⟩

theorem rem_nil_of_exhausted {it : RunRevIt} (hp : ¬ 0 < it.curIndexP) : it.rem = [] := by
  apply remBelow_nil
  intro x _
  simp only [cursor, hp, if_false]
  omega

theorem init_spec (rs : List (Nat × Nat)) (hs : RunSep rs) (hb : ∀ p ∈ rs, p.1 + p.2 ≤ 65535) :
    (init rs).Inv ∧ (init rs).rem = expandRuns rs ∧ (init rs).rs = rs := by
  refine ⟨⟨hs, hb, Nat.le_refl _, fun h => ?_⟩, ?_, rfl⟩
  · simp only [init] at h ⊢
    rw [if_pos h]
    exact Nat.le_refl _
  · apply remBelow_all
    intro x hx
    have hxr := (mem_expandRuns _ _).mp hx
    obtain ⟨j, hj, h1, h2⟩ := (inRuns_idx rs x).mp hxr
    have hpos : 0 < rs.length := by omega
    have hle := end_mono_le hs (show j ≤ rs.length - 1 by omega) (by omega)
    rw [rEnd_eq rs (rs.length - 1)] at hle
    simp only [cursor, init, hpos, if_true]
    omega

theorem hasNext_iff {it : RunRevIt} (hi : it.Inv) : it.hasNext = true ↔ it.rem ≠ [] := by
  by_cases hp : 0 < it.curIndexP
  · obtain ⟨hc, hm, -⟩ := cursor_pos hi hp
    simp only [hasNext, hp, decide_true, true_iff]
    intro h
    have : rStart it.rs (it.curIndexP - 1) + it.curPosInIndex ∈ it.rem := by
      simp only [rem]
      exact mem_remBelow.mpr ⟨hm, by omega⟩
    rw [h] at this
    cases this
  · rw [rem_nil_of_exhausted hp]
    simp only [hasNext, hp, decide_false]
    constructor
    · intro h; cases h
    · intro h; exact absurd rfl h

theorem next_spec {it : RunRevIt} (hi : it.Inv) {v : Nat} {t : List Nat} (h : it.rem = t ++ [v]) :
    it.next.1 = v ∧ it.next.2.Inv ∧ it.next.2.rem = t ∧ it.next.2.rs = it.rs := by
  have hp : 0 < it.curIndexP := by
    apply Classical.byContradiction; intro hc
    rw [rem_nil_of_exhausted hc] at h
    have := congrArg List.length h
    simp at this
  obtain ⟨hc, hm, hle⟩ := cursor_pos hi hp
  have hsorted := sorted_expandRuns it.rs hi.1
  have hsn := remBelow_snoc hsorted hm
  simp only [rem] at h
  rw [hc, hsn] at h
  have hh := List.append_inj' h (by simp)
  have hv : v = rStart it.rs (it.curIndexP - 1) + it.curPosInIndex := by
    have := hh.2; simp at this; exact this.symm
  have ht : t = remBelow (expandRuns it.rs) (rStart it.rs (it.curIndexP - 1) + it.curPosInIndex) := hh.1.symm
  have ha : add16 (rStart it.rs (it.curIndexP - 1)) it.curPosInIndex = v := by
    rw [hv]; exact run_add16_eq hle
  obtain ⟨hs, hb, hl, hpos⟩ := hi
  have hpos' := hpos hp
  unfold next
  simp only []
  by_cases h0 : it.curPosInIndex > 0
  · rw [if_pos h0]
    refine ⟨ha, ⟨hs, hb, hl, fun _ => ?_⟩, ?_, rfl⟩
    · simp only []; omega
    · rw [ht]
      simp only [rem, cursor, hp, if_true]
      congr 1
      omega
  · rw [if_neg h0]
    have hz : it.curPosInIndex = 0 := by omega
    refine ⟨ha, ⟨hs, hb, ?_, fun hq => ?_⟩, ?_, rfl⟩
    · simp only []; omega
    · simp only [] at hq ⊢
      rw [if_pos hq]
      exact Nat.le_refl _
    · rw [ht, hz]
      simp only [rem]
      apply remBelow_congr
      intro x hx
      have hxr := (mem_expandRuns _ _).mp hx
      obtain ⟨j, hj, h1, h2⟩ := (inRuns_idx _ x).mp hxr
      simp only [cursor]
      refine Iff.symm ?_
      by_cases hq : 0 < it.curIndexP - 1
      · simp only [hq, if_true]
        have hsep := sep_idx hs (show it.curIndexP - 1 - 1 < it.curIndexP - 1 by omega) (by omega)
        rw [rEnd_eq] at hsep
        constructor
        · intro hlt
          have hjlt : j < it.curIndexP - 1 := by
            apply Classical.byContradiction; intro hc2
            have := start_mono_le hs (show it.curIndexP - 1 ≤ j by omega) hj
            omega
          have := end_mono_le hs (show j ≤ it.curIndexP - 1 - 1 by omega) (by omega)
          rw [rEnd_eq _ (it.curIndexP - 1 - 1)] at this
          omega
        · intro hlt; omega
      · simp only [hq, if_false]
        constructor
        · intro hlt
          have := start_mono_le hs (show it.curIndexP - 1 ≤ j by omega) hj
          omega
        · intro hlt; omega

end RunRevIt

namespace RunIt

/-- a stretch of `k` consecutive members starting at the cursor is delivered first -/
theorem remFrom_range {vals : List Nat} (hs : vals.Pairwise (· < ·)) : ∀ (k c : Nat),
    (∀ j, j < k → c + j ∈ vals) → remFrom vals c = List.range' c k ++ remFrom vals (c + k)
  | 0, c, _ => by simp
  | k + 1, c, h => by
    have hc : c ∈ vals := by simpa using h 0 (by omega)
    have ih := remFrom_range hs k (c + 1) (fun j hj => by
      have := h (j + 1) (by omega)
      rwa [show c + 1 + j = c + (j + 1) by omega])
    rw [remFrom_cons hs hc (Nat.lt_succ_self c) (fun x _ hx => hx), List.range'_succ, ih,
      show c + 1 + k = c + (k + 1) by omega]
    rfl

/-- the members above the end of run `idx` are what the state `(idx + 1, 0)` still delivers -/
theorem rem_after_run {rs : List (Nat × Nat)} (hs : RunSep rs) (hb : ∀ p ∈ rs, p.1 + p.2 ≤ 65535) {idx : Nat}
    (hl : idx < rs.length) : remFrom (expandRuns rs) (rEnd rs idx + 1) = (⟨rs, idx + 1, 0⟩ : RunIt).rem := by
  simp only [rem]
  apply remFrom_congr
  intro x hx
  have hxr := (mem_expandRuns _ _).mp hx
  simp only [cursor]
  by_cases hl2 : idx + 1 < rs.length
  · rw [if_pos hl2]
    have hsep := sep_idx hs (show idx < idx + 1 by omega) hl2
    constructor
    · intro hge
      have := mem_after_run hs hxr (by omega) hl
      omega
    · intro hge; omega
  · rw [if_neg hl2]
    constructor
    · intro hge
      have := mem_after_run hs hxr (by omega) hl
      omega
    · intro hge
      have := lt_of_inRuns hb hxr
      omega

theorem rem_split {rs : List (Nat × Nat)} (hs : RunSep rs) {idx pos : Nat} (hl : idx < rs.length) (k : Nat)
    (hk : pos + k ≤ rLenF rs idx + 1) :
    (⟨rs, idx, pos⟩ : RunIt).rem =
      List.range' (rStart rs idx + pos) k ++ remFrom (expandRuns rs) (rStart rs idx + pos + k) := by
  simp only [rem, cursor, hl, if_true]
  apply remFrom_range (sorted_expandRuns rs hs)
  intro j hj
  rw [mem_expandRuns, inRuns_idx]
  exact ⟨idx, hl, by omega, by rw [rEnd_eq]; omega⟩

theorem range_or_hs {rs : List (Nat × Nat)} (hb : ∀ p ∈ rs, p.1 + p.2 ≤ 65535) {idx pos : Nat}
    (hl : idx < rs.length) (hp : pos ≤ rLenF rs idx) {hs : Nat} (hhs : hs % 65536 = 0) (m : Nat) :
    List.range' (add16 (rStart rs idx) pos ||| hs) m = (List.range' (rStart rs idx + pos) m).map (hs + ·) := by
  have hb' := rEnd_bound hb hl
  rw [rEnd_eq] at hb'
  rw [run_add16_eq (by omega), or_hs_eq_add (by omega) hhs, List.map_add_range']

theorem take_drop_combine {A R : List Nat} {room : Nat} (hA : A.length ≤ room) (f : Nat → Nat) :
    ((A ++ R).take room).map f = A.map f ++ (R.take (room - A.length)).map f ∧
      (A ++ R).drop room = R.drop (room - A.length) := by
  rw [List.take_append, List.drop_append, List.take_of_length_le hA, List.drop_of_length_le hA, List.map_append]
  exact ⟨rfl, rfl⟩

theorem moreValsOf_eq {len pos room : Nat} (hp : pos ≤ len) (hlen : len ≤ 65535) :
    moreValsOf len pos room = min (len - pos + 1) room := by
  unfold moreValsOf
  rw [if_pos hp, run_sub16_eq hp (by omega)]

theorem loop_spec (rs : List (Nat × Nat)) (hsep : RunSep rs) (hb : ∀ p ∈ rs, p.1 + p.2 ≤ 65535) (hs : Nat)
    (hhs : hs % 65536 = 0) (room idx pos : Nat) :
    (⟨rs, idx, pos⟩ : RunIt).Inv →
    (loop rs hs room idx pos).1 = (((⟨rs, idx, pos⟩ : RunIt).rem).take room).map (hs + ·) ∧
      (⟨rs, (loop rs hs room idx pos).2.1, (loop rs hs room idx pos).2.2⟩ : RunIt).Inv ∧
      (⟨rs, (loop rs hs room idx pos).2.1, (loop rs hs room idx pos).2.2⟩ : RunIt).rem =
        ((⟨rs, idx, pos⟩ : RunIt).rem).drop room := by
  fun_induction loop rs hs room idx pos
  case case1 idx pos =>
    intro hi
    exact ⟨by simp, hi, by simp⟩
  case case2 room idx pos hr hge =>
    intro hi
    have : (⟨rs, idx, pos⟩ : RunIt).rem = [] := rem_nil_of_exhausted hi (by simp only []; omega)
    simp only [this]
    exact ⟨by simp, hi, by simp⟩
  case case3 room idx pos hr hl hgt hlast =>
    intro hi
    have hl' : idx < rs.length := by omega
    have hp : pos ≤ rLenF rs idx := hi.2.2 hl'
    have hlen : rLenF rs idx ≤ 65535 := by
      have := rEnd_bound hb hl'; rw [rEnd_eq] at this; omega
    have hm := moreValsOf_eq (room := room) hp hlen
    generalize moreValsOf (rLenF rs idx) pos room = m at hm hgt ⊢
    have hsplit := rem_split hsep hl' m (pos := pos) (by omega)
    rw [show rStart rs idx + pos + m = rEnd rs idx + 1 by rw [rEnd_eq]; omega, rem_after_run hsep hb hl'] at hsplit
    have hnil : (⟨rs, idx + 1, 0⟩ : RunIt).rem = [] :=
      rem_nil_of_exhausted ⟨hsep, hb, fun _ => Nat.zero_le _⟩ (by simp only []; omega)
    obtain ⟨e1, e2⟩ := take_drop_combine (A := List.range' (rStart rs idx + pos) m)
      (R := (⟨rs, idx + 1, 0⟩ : RunIt).rem) (room := room) (by simp only [List.length_range']; omega) (hs + ·)
    simp only []
    rw [hsplit, e1, e2, range_or_hs hb hl' hp hhs, hnil]
    exact ⟨by simp, ⟨hsep, hb, fun _ => Nat.zero_le _⟩, by simp⟩
  case case4 room idx pos hr hl hgt hne vs r hx ih =>
    intro hi
    rw [hx] at ih
    have hl' : idx < rs.length := by omega
    have hp : pos ≤ rLenF rs idx := hi.2.2 hl'
    have hlen : rLenF rs idx ≤ 65535 := by
      have := rEnd_bound hb hl'; rw [rEnd_eq] at this; omega
    have hm := moreValsOf_eq (room := room) hp hlen
    generalize moreValsOf (rLenF rs idx) pos room = m at hm hgt ih ⊢
    have hsplit := rem_split hsep hl' m (pos := pos) (by omega)
    rw [show rStart rs idx + pos + m = rEnd rs idx + 1 by rw [rEnd_eq]; omega, rem_after_run hsep hb hl'] at hsplit
    obtain ⟨e1, e2⟩ := take_drop_combine (A := List.range' (rStart rs idx + pos) m)
      (R := (⟨rs, idx + 1, 0⟩ : RunIt).rem) (room := room) (by simp only [List.length_range']; omega) (hs + ·)
    obtain ⟨i1, i2, i3⟩ := ih ⟨hsep, hb, fun _ => Nat.zero_le _⟩
    simp only [List.length_range'] at e1 e2
    simp only [] at i1 i2 i3 ⊢
    rw [hsplit, e1, e2, range_or_hs hb hl' hp hhs, i1]
    exact ⟨rfl, i2, i3⟩
  case case5 room idx pos hr hl hle vs r hx ih =>
    intro hi
    rw [hx] at ih
    have hl' : idx < rs.length := by omega
    have hp : pos ≤ rLenF rs idx := hi.2.2 hl'
    have hlen : rLenF rs idx ≤ 65535 := by
      have := rEnd_bound hb hl'; rw [rEnd_eq] at this; omega
    have hm := moreValsOf_eq (room := room) hp hlen
    generalize moreValsOf (rLenF rs idx) pos room = m at hm hle ih ⊢
    have hmod : (pos + m) % 65536 = pos + m := by omega
    rw [hmod] at ih
    have hsplit := rem_split hsep hl' m (pos := pos) (by omega)
    have hnext : remFrom (expandRuns rs) (rStart rs idx + pos + m) = (⟨rs, idx, pos + m⟩ : RunIt).rem := by
      simp only [rem, cursor, hl', if_true]
      congr 1
      omega
    rw [hnext] at hsplit
    obtain ⟨e1, e2⟩ := take_drop_combine (A := List.range' (rStart rs idx + pos) m)
      (R := (⟨rs, idx, pos + m⟩ : RunIt).rem) (room := room) (by simp only [List.length_range']; omega) (hs + ·)
    obtain ⟨i1, i2, i3⟩ := ih ⟨hsep, hb, fun _ => by simp only []; omega⟩
    simp only [List.length_range'] at e1 e2
    simp only [] at i1 i2 i3 ⊢
    rw [hsplit, e1, e2, range_or_hs hb hl' hp hhs, i1]
    exact ⟨rfl, i2, i3⟩

/-- one `nextMany` call delivers the next `min cap |rem|` values (`hs` = the high bits, a multiple of 65536) -/
theorem nextMany_spec {it : RunIt} (hi : it.Inv) (hs cap : Nat) (hhs : hs % 65536 = 0) :
    (it.nextMany hs cap).1 = (it.rem.take cap).map (hs + ·) ∧ (it.nextMany hs cap).2.Inv ∧
      (it.nextMany hs cap).2.rem = it.rem.drop cap ∧ (it.nextMany hs cap).2.rs = it.rs := by
  unfold nextMany
  by_cases hn : it.hasNext = true
  · simp only [hn, Bool.not_true, Bool.false_eq_true, if_false]
    have h := loop_spec it.rs hi.1 hi.2.1 hs hhs cap it.curIndex it.curPosInIndex hi
    generalize loop it.rs hs cap it.curIndex it.curPosInIndex = r at h
    obtain ⟨vs, i, p⟩ := r
    exact ⟨h.1, h.2.1, h.2.2, trivial⟩
  · have hnil : it.rem = [] := by
      apply Classical.byContradiction; intro hc
      exact hn ((hasNext_iff hi).mpr hc)
    have hf : it.hasNext = false := by simpa using hn
    simp only [hf, Bool.not_false, if_true, hnil]
    exact ⟨by simp, hi, by simp, trivial⟩

end RunIt

end RModel.Impl.It
