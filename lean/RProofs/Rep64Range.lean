import RProofs.Rep64
/-!
Bucket-level L2 theorems for the range operations of `roaring64` (`Flip` in place and static, `AddRange`, `RemoveRange`):
set semantics and well-formedness of `Rep64.flip / sflip / addRange / removeRange`, for every instance `o : Ops32` of the
32-bit range functions that is sound (`Ops32.Sound`: set semantics + well-formed results on well-formed inputs for
`lo < hi ≤ 2^32`) — the 32-bit functions themselves are not modelled at L2.
Core Lean only; no `native_decide`, `bv_decide`, axioms.
-/
namespace RModel.Impl
open RModel RModel.BSet RModel.Driver ContOps RepOps R64Ops

/-- what the bucket-level theorems need from the 32-bit `Flip / AddRange / RemoveRange` on a range `s < e ≤ 2^32` -/
structure Ops32.Sound (o : Ops32) : Prop where
  mem_flip : ∀ (r : Rep) (s e y : Nat), r.wf = true → s < e → e ≤ 4294967296 →
    mem (o.flip r s e).toBSet y = (mem r.toBSet y != (decide (s ≤ y) && decide (y < e)))
  wf_flip : ∀ (r : Rep) (s e : Nat), r.wf = true → s < e → e ≤ 4294967296 → (o.flip r s e).wf = true
  mem_addRange : ∀ (r : Rep) (s e y : Nat), r.wf = true → s < e → e ≤ 4294967296 →
    mem (o.addRange r s e).toBSet y = (mem r.toBSet y || (decide (s ≤ y) && decide (y < e)))
  wf_addRange : ∀ (r : Rep) (s e : Nat), r.wf = true → s < e → e ≤ 4294967296 → (o.addRange r s e).wf = true
  mem_removeRange : ∀ (r : Rep) (s e y : Nat), r.wf = true → s < e → e ≤ 4294967296 →
    mem (o.removeRange r s e).toBSet y = (mem r.toBSet y && !(decide (s ≤ y) && decide (y < e)))
  wf_removeRange : ∀ (r : Rep) (s e : Nat), r.wf = true → s < e → e ≤ 4294967296 → (o.removeRange r s e).wf = true

/-! ### optional buckets -/

def optMem (ob : Option Bucket) (y : Nat) : Bool :=
  match ob with
  | none => false
  | some b => mem b.bm.toBSet y

def optHas (ob : Option Bucket) (x : Nat) : Bool :=
  match ob with
  | none => false
  | some b => b.high == x / 4294967296 && mem b.bm.toBSet (x % 4294967296)

theorem bucketsHas_consOpt (ob : Option Bucket) (rest : List Bucket) (x : Nat) :
    bucketsHas (consOpt ob rest) x = (optHas ob x || bucketsHas rest x) := by
  cases ob with
  | none => simp only [consOpt, optHas, Bool.false_or]
  | some b => simp only [consOpt, optHas, bucketsHas_cons]

/-- a stored bucket is fine: key below `2^32`, bitmap well-formed and not empty -/
def BucketOk (b : Bucket) : Prop := b.high < 4294967296 ∧ b.bm.wf = true ∧ b.bm.isEmptyGo = false

theorem optHas_of_key {ob : Option Bucket} {k : Nat} (hk : ∀ b', ob = some b' → b'.high = k) (x : Nat) :
    optHas ob x = (k == x / 4294967296 && optMem ob (x % 4294967296)) := by
  cases ob with
  | none => simp only [optHas, optMem, Bool.and_false]
  | some b => simp only [optHas, optMem, hk b rfl]

/-! ### the generic key walk -/

/-- what the set-level theorem needs from the three parameters of `rangeWalk` -/
structure WalkSpec (K : Nat → Prop) (pres : Nat → Bucket → Option Bucket) (abs : Nat → Option Bucket)
    (out : Bucket → Bucket) (F : Nat → Bool → Nat → Bool) : Prop where
  out_high : ∀ b, (out b).high = b.high
  out_set : ∀ b, (out b).bm.toBSet = b.bm.toBSet
  pres_high : ∀ k b b', pres k b = some b' → b'.high = k
  abs_high : ∀ k b', abs k = some b' → b'.high = k
  pres_mem : ∀ k b y, K k → BucketOk b → b.high = k → optMem (pres k b) y = F k (mem b.bm.toBSet y) y
  abs_mem : ∀ k y, K k → optMem (abs k) y = F k false y

theorem contains_false_of_lt {ks : List Nat} {k a : Nat} (h : ∀ k' ∈ ks, k < k') (ha : a ≤ k) : ks.contains a = false := by
  induction ks with
  | nil => rfl
  | cons c t ih =>
    rw [List.contains_cons, ih (fun k' hk' => h k' (List.mem_cons_of_mem _ hk'))]
    have := h c List.mem_cons_self
    rw [beq_false_of_ne' (by omega : a ≠ c)]
    rfl

theorem bucketsHas_map_out {out : Bucket → Bucket} (h1 : ∀ b, (out b).high = b.high)
    (h2 : ∀ b, (out b).bm.toBSet = b.bm.toBSet) (l : List Bucket) (x : Nat) :
    bucketsHas (l.map out) x = bucketsHas l x := by
  induction l with
  | nil => rfl
  | cons s t ih => rw [List.map_cons, bucketsHas_cons, bucketsHas_cons, ih, h1, h2]

theorem has_rangeWalk {pres : Nat → Bucket → Option Bucket} {abs : Nat → Option Bucket} {out : Bucket → Bucket}
    {F : Nat → Bool → Nat → Bool} {K : Nat → Prop} (W : WalkSpec K pres abs out F) (ks : List Nat) (bs : List Bucket)
    (hks : ks.Pairwise (· < ·)) (hkb : ∀ k ∈ ks, K k) (hbs : BucketsWf bs) (x : Nat) :
    bucketsHas (rangeWalk pres abs out ks bs) x =
      (if ks.contains (x / 4294967296) then F (x / 4294967296) (bucketsHas bs x) (x % 4294967296)
       else bucketsHas bs x) := by
  fun_induction rangeWalk pres abs out ks bs with
  | case1 bs =>
    rw [bucketsHas_map_out W.out_high W.out_set]
    simp only [List.contains_nil, Bool.false_eq_true, if_false]
  | case2 k ks ih =>
    have hk := List.pairwise_cons.mp hks
    rw [bucketsHas_consOpt, ih hk.2 (fun k' hk' => hkb k' (List.mem_cons_of_mem _ hk')) hbs,
      optHas_of_key (W.abs_high k), W.abs_mem k _ (hkb k List.mem_cons_self), List.contains_cons, bucketsHas_nil]
    by_cases hx : x / 4294967296 = k
    · rw [contains_false_of_lt hk.1 (by omega), hx, beq_true_of_eq' rfl]
      simp only [Bool.true_and, Bool.false_eq_true, if_false, Bool.or_false, if_true]
    · rw [beq_false_of_ne' (fun h => hx h.symm), beq_false_of_ne' hx]
      simp only [Bool.false_and, Bool.false_or]
  | case3 k ks b bs hlt ih =>
    have hk := List.pairwise_cons.mp hks
    rw [bucketsHas_cons, W.out_high, W.out_set, ih hks hkb hbs.tail, bucketsHas_cons]
    by_cases hx : b.high = x / 4294967296
    · have h1 : (k :: ks).contains (x / 4294967296) = false := by
        rw [List.contains_cons, contains_false_of_lt hk.1 (by omega), beq_false_of_ne' (by omega : x / 4294967296 ≠ k)]
        rfl
      rw [h1]
      simp only [Bool.false_eq_true, if_false]
    · rw [beq_false_of_ne' hx]
      simp only [Bool.false_and, Bool.false_or]
  | case4 k ks b bs hlt hlt2 ih =>
    have hk := List.pairwise_cons.mp hks
    have hkb' : k < b.high := hlt2
    rw [bucketsHas_consOpt, ih hk.2 (fun k' hk' => hkb k' (List.mem_cons_of_mem _ hk')) hbs,
      optHas_of_key (W.abs_high k), W.abs_mem k _ (hkb k List.mem_cons_self), List.contains_cons]
    by_cases hx : x / 4294967296 = k
    · rw [contains_false_of_lt hk.1 (by omega), hx, beq_true_of_eq' rfl,
        bucketsHas_gt (hbs.gt_of_lt_head hkb') (by omega)]
      simp only [Bool.true_and, Bool.false_eq_true, if_false, Bool.or_false, if_true]
    · rw [beq_false_of_ne' (fun h => hx h.symm), beq_false_of_ne' hx]
      simp only [Bool.false_and, Bool.false_or]
  | case5 k ks b bs hlt hlt2 ih =>
    have hk := List.pairwise_cons.mp hks
    have hkb' : b.high = k := by omega
    rw [bucketsHas_consOpt, ih hk.2 (fun k' hk' => hkb k' (List.mem_cons_of_mem _ hk')) hbs.tail,
      optHas_of_key (W.pres_high k b), W.pres_mem k b _ (hkb k List.mem_cons_self) hbs.head hkb', List.contains_cons, bucketsHas_cons]
    by_cases hx : x / 4294967296 = k
    · rw [contains_false_of_lt hk.1 (by omega), hx, beq_true_of_eq' rfl, hkb', beq_true_of_eq' rfl,
        bucketsHas_gt hbs.head_lt (by omega)]
      simp only [Bool.true_and, Bool.false_eq_true, if_false, Bool.or_false, if_true]
    · rw [beq_false_of_ne' (fun h => hx h.symm), beq_false_of_ne' hx, hkb', beq_false_of_ne' (fun h => hx h.symm)]
      simp only [Bool.false_and, Bool.false_or]

/-! #### well-formedness of the walk -/

theorem mem_consOpt {ob : Option Bucket} {rest : List Bucket} {s : Bucket} (h : s ∈ consOpt ob rest) :
    ob = some s ∨ s ∈ rest := by
  cases ob with
  | none => exact Or.inr h
  | some b =>
    rcases List.mem_cons.mp h with rfl | h'
    · exact Or.inl rfl
    · exact Or.inr h'

theorem gt_rangeWalk {pres : Nat → Bucket → Option Bucket} {abs : Nat → Option Bucket} {out : Bucket → Bucket}
    (hout : ∀ b, (out b).high = b.high) (hpres : ∀ k b b', pres k b = some b' → b'.high = k)
    (habs : ∀ k b', abs k = some b' → b'.high = k) (m : Nat) (ks : List Nat) (bs : List Bucket)
    (hks : ∀ k ∈ ks, m < k) (hbs : ∀ b ∈ bs, m < b.high) :
    ∀ s ∈ rangeWalk pres abs out ks bs, m < s.high := by
  fun_induction rangeWalk pres abs out ks bs with
  | case1 bs =>
    intro s hs
    obtain ⟨b, hb, rfl⟩ := List.mem_map.mp hs
    rw [hout]; exact hbs b hb
  | case2 k ks ih =>
    intro s hs
    rcases mem_consOpt hs with h | h
    · rw [habs k s h]; exact hks k List.mem_cons_self
    · exact ih (fun k' hk' => hks k' (List.mem_cons_of_mem _ hk')) hbs s h
  | case3 k ks b bs hlt ih =>
    intro s hs
    rcases List.mem_cons.mp hs with h | h
    · rw [h, hout]; exact hbs b List.mem_cons_self
    · exact ih hks (fun b' hb' => hbs b' (List.mem_cons_of_mem _ hb')) s h
  | case4 k ks b bs hlt hlt2 ih =>
    intro s hs
    rcases mem_consOpt hs with h | h
    · rw [habs k s h]; exact hks k List.mem_cons_self
    · exact ih (fun k' hk' => hks k' (List.mem_cons_of_mem _ hk')) hbs s h
  | case5 k ks b bs hlt hlt2 ih =>
    intro s hs
    rcases mem_consOpt hs with h | h
    · rw [hpres k b s h]; exact hks k List.mem_cons_self
    · exact ih (fun k' hk' => hks k' (List.mem_cons_of_mem _ hk')) (fun b' hb' => hbs b' (List.mem_cons_of_mem _ hb')) s h

theorem wf_consOpt {ob : Option Bucket} {rest : List Bucket} {k : Nat} (hob : ∀ b', ob = some b' → BucketOk b' ∧ b'.high = k)
    (hr : BucketsWf rest) (hlt : ∀ s ∈ rest, k < s.high) : BucketsWf (consOpt ob rest) := by
  cases ob with
  | none => exact hr
  | some b =>
    obtain ⟨hok, hk⟩ := hob b rfl
    exact BucketsWf.cons hok hr (by rw [hk]; exact hlt)

theorem wf_rangeWalk {pres : Nat → Bucket → Option Bucket} {abs : Nat → Option Bucket} {out : Bucket → Bucket}
    {K : Nat → Prop}
    (hout : ∀ b, BucketOk b → BucketOk (out b)) (houtk : ∀ b, (out b).high = b.high)
    (hpres : ∀ k b b', K k → BucketOk b → b.high = k → pres k b = some b' → BucketOk b')
    (hpresk : ∀ k b b', pres k b = some b' → b'.high = k)
    (habs : ∀ k b', K k → abs k = some b' → BucketOk b') (habsk : ∀ k b', abs k = some b' → b'.high = k)
    (ks : List Nat) (bs : List Bucket) (hks : ks.Pairwise (· < ·)) (hkb : ∀ k ∈ ks, K k) (hbs : BucketsWf bs) :
    BucketsWf (rangeWalk pres abs out ks bs) := by
  fun_induction rangeWalk pres abs out ks bs with
  | case1 bs =>
    refine ⟨List.Pairwise.map _ (fun s t hst => by rw [houtk, houtk]; exact hst) hbs.sorted, fun s hs => ?_⟩
    obtain ⟨b, hb, rfl⟩ := List.mem_map.mp hs
    exact hout b (hbs.ok b hb)
  | case2 k ks ih =>
    have hk := List.pairwise_cons.mp hks
    have hkb2 : ∀ k' ∈ ks, K k' := fun k' hk' => hkb k' (List.mem_cons_of_mem _ hk')
    exact wf_consOpt (fun b' hb' => ⟨habs k b' (hkb k List.mem_cons_self) hb', habsk k b' hb'⟩) (ih hk.2 hkb2 hbs)
      (gt_rangeWalk houtk hpresk habsk k ks [] hk.1 (fun _ h => by cases h))
  | case3 k ks b bs hlt ih =>
    have hk := List.pairwise_cons.mp hks
    refine BucketsWf.cons (hout b hbs.head) (ih hks hkb hbs.tail) ?_
    rw [houtk]
    exact gt_rangeWalk houtk hpresk habsk b.high (k :: ks) bs
      (fun k' hk' => by
        rcases List.mem_cons.mp hk' with rfl | h
        · exact hlt
        · have := hk.1 k' h; omega) hbs.head_lt
  | case4 k ks b bs hlt hlt2 ih =>
    have hk := List.pairwise_cons.mp hks
    have hkb2 : ∀ k' ∈ ks, K k' := fun k' hk' => hkb k' (List.mem_cons_of_mem _ hk')
    exact wf_consOpt (fun b' hb' => ⟨habs k b' (hkb k List.mem_cons_self) hb', habsk k b' hb'⟩) (ih hk.2 hkb2 hbs)
      (gt_rangeWalk houtk hpresk habsk k ks (b :: bs) hk.1 (hbs.gt_of_lt_head hlt2))
  | case5 k ks b bs hlt hlt2 ih =>
    have hk := List.pairwise_cons.mp hks
    have hkb' : b.high = k := by omega
    have hkb2 : ∀ k' ∈ ks, K k' := fun k' hk' => hkb k' (List.mem_cons_of_mem _ hk')
    exact wf_consOpt (fun b' hb' => ⟨hpres k b b' (hkb k List.mem_cons_self) hbs.head hkb' hb', hpresk k b b' hb'⟩)
      (ih hk.2 hkb2 hbs.tail)
      (gt_rangeWalk houtk hpresk habsk k ks bs hk.1 (fun s hs => by have := hbs.head_lt s hs; omega))

/-! ### pieces shared by the instances -/

theorem nonEmpty_some {b b' : Bucket} (h : nonEmpty b = some b') : b' = b ∧ b.bm.isEmptyGo = false := by
  unfold nonEmpty at h
  split at h
  · cases h
  · rename_i he
    cases h
    exact ⟨rfl, by simpa using he⟩

theorem optMem_nonEmpty (b : Bucket) (y : Nat) : optMem (nonEmpty b) y = mem b.bm.toBSet y := by
  unfold nonEmpty
  cases he : b.bm.isEmptyGo with
  | true => simp only [if_true, optMem, mem_of_isEmptyGo he]
  | false => simp only [Bool.false_eq_true, if_false, optMem]

theorem toBSet_writableBm (b : Bucket) : (writableBm b).toBSet = b.bm.toBSet := by
  unfold writableBm; split
  · exact Rep.toBSet_cloneB _
  · rfl

theorem wf_writableBm (b : Bucket) : (writableBm b).wf = b.bm.wf := by
  unfold writableBm; split
  · exact Rep.wf_cloneB _
  · rfl

theorem wf_emptyRep : ({} : Rep).wf = true := by decide

theorem mem_emptyRep (y : Nat) : mem ({} : Rep).toBSet y = false := mem_of_isEmptyGo rfl y

theorem rangeTest_false {s e : Nat} (h : ¬ s < e) (y : Nat) : (decide (s ≤ y) && decide (y < e)) = false := by
  rw [Bool.eq_false_iff]
  simp only [ne_eq, Bool.and_eq_true, decide_eq_true_eq]
  omega

theorem mem_iflip32 {o : Ops32} (ho : o.Sound) (r : Rep) (hr : r.wf = true) (s e y : Nat) (he : e ≤ 4294967296) :
    mem (iflip32 o r s e).toBSet y = (mem r.toBSet y != (decide (s ≤ y) && decide (y < e))) := by
  unfold iflip32
  split
  · rename_i h; exact ho.mem_flip r s e y hr h he
  · rename_i h; rw [rangeTest_false h, Bool.bne_false]

theorem wf_iflip32 {o : Ops32} (ho : o.Sound) (r : Rep) (hr : r.wf = true) (s e : Nat) (he : e ≤ 4294967296) :
    (iflip32 o r s e).wf = true := by
  unfold iflip32
  split
  · rename_i h; exact ho.wf_flip r s e hr h he
  · exact hr

theorem mem_sflip32 {o : Ops32} (ho : o.Sound) (r : Rep) (hr : r.wf = true) (s e y : Nat) (he : e ≤ 4294967296) :
    mem (sflip32 o r s e).toBSet y = (mem r.toBSet y != (decide (s ≤ y) && decide (y < e))) := by
  unfold sflip32
  split
  · rename_i h; exact ho.mem_flip r s e y hr h he
  · rename_i h; rw [rangeTest_false h, Bool.bne_false, Rep.toBSet_cloneB]

theorem wf_sflip32 {o : Ops32} (ho : o.Sound) (r : Rep) (hr : r.wf = true) (s e : Nat) (he : e ≤ 4294967296) :
    (sflip32 o r s e).wf = true := by
  unfold sflip32
  split
  · rename_i h; exact ho.wf_flip r s e hr h he
  · rw [Rep.wf_cloneB]; exact hr

theorem subHiFlip_le (hi k : Nat) : subHiFlip hi k ≤ 4294967296 := by
  unfold subHiFlip; split <;> omega

theorem subHiLast_le (hi k : Nat) : subHiLast hi k ≤ 4294967296 := by
  unfold subHiLast; split <;> omega

theorem contains_keyRange (a b k : Nat) : (keyRange a b).contains k = (decide (a ≤ k) && decide (k ≤ b)) := by
  rw [Bool.eq_iff_iff]
  simp only [keyRange, List.contains_iff_mem, List.mem_range'_1, Bool.and_eq_true, decide_eq_true_eq]
  omega

theorem pairwise_keyRange (a b : Nat) : (keyRange a b).Pairwise (· < ·) := List.pairwise_lt_range' 1

theorem mem_keyRange {a b k : Nat} (h : k ∈ keyRange a b) : a ≤ k ∧ k ≤ b := by
  simp only [keyRange, List.mem_range'_1] at h; omega

/-- inside the key range the per-bucket sub-range of `Flip` is the range itself -/
theorem flipTest (lo hi x : Nat) :
    ((decide (lo / 4294967296 ≤ x / 4294967296) && decide (x / 4294967296 ≤ hi / 4294967296)) &&
      (decide (subLo lo (x / 4294967296) ≤ x % 4294967296) && decide (x % 4294967296 < subHiFlip hi (x / 4294967296)))) =
    (decide (lo ≤ x) && decide (x < hi)) := by
  rw [Bool.eq_iff_iff]
  simp only [Bool.and_eq_true, decide_eq_true_eq]
  unfold subLo subHiFlip
  split <;> split <;> omega

/-- inside the key range the per-bucket sub-range of `AddRange` is the range itself -/
theorem lastTest (lo hi x : Nat) (h : lo < hi) :
    ((decide (lo / 4294967296 ≤ x / 4294967296) && decide (x / 4294967296 ≤ (hi - 1) / 4294967296)) &&
      (decide (subLo lo (x / 4294967296) ≤ x % 4294967296) && decide (x % 4294967296 < subHiLast hi (x / 4294967296)))) =
    (decide (lo ≤ x) && decide (x < hi)) := by
  rw [Bool.eq_iff_iff]
  simp only [Bool.and_eq_true, decide_eq_true_eq]
  unfold subLo subHiLast
  split <;> split <;> omega

theorem ite_bne (c m t : Bool) : (if c = true then (m != t) else m) = (m != (c && t)) := by
  cases c <;> cases m <;> cases t <;> rfl

theorem ite_or (c m t : Bool) : (if c = true then (m || t) else m) = (m || (c && t)) := by
  cases c <;> cases m <;> cases t <;> rfl

theorem sinc_flipRange (s : BSet) (hs : SInc s) (lo hi : Nat) : SInc (flipRange s lo hi) :=
  sinc_combine _ _ _ _ _ hs (sinc_range lo hi)
theorem sinc_addRange (s : BSet) (hs : SInc s) (lo hi : Nat) : SInc (addRange s lo hi) :=
  sinc_combine _ _ _ _ _ hs (sinc_range lo hi)
theorem sinc_removeRange (s : BSet) (hs : SInc s) (lo hi : Nat) : SInc (removeRange s lo hi) :=
  sinc_combine _ _ _ _ _ hs (sinc_range lo hi)

/-! ### in-place `Flip` -/

def flipF (lo hi : Nat) (k : Nat) (m : Bool) (y : Nat) : Bool :=
  m != (decide (subLo lo k ≤ y) && decide (y < subHiFlip hi k))

theorem flipPresent_some {o : Ops32} {lo hi k : Nat} {b b' : Bucket} (h : flipPresent o lo hi k b = some b') :
    b'.high = k := by
  obtain ⟨rfl, _⟩ := nonEmpty_some h; rfl

theorem newFlipped_some {o : Ops32} {lo hi k : Nat} {b' : Bucket} (h : newFlipped o lo hi k = some b') :
    b'.high = k := by
  obtain ⟨rfl, _⟩ := nonEmpty_some h; rfl

theorem abs_mem_flip {o : Ops32} (ho : o.Sound) (lo hi k y : Nat) :
    optMem (newFlipped o lo hi k) y = flipF lo hi k false y := by
  unfold newFlipped flipF
  rw [optMem_nonEmpty]
  simp only
  rw [mem_iflip32 ho _ wf_emptyRep _ _ _ (subHiFlip_le hi k), mem_emptyRep]

theorem abs_ok_flip {o : Ops32} (ho : o.Sound) (lo hi k : Nat) (b' : Bucket) (hk : k < 4294967296)
    (h : newFlipped o lo hi k = some b') : BucketOk b' := by
  obtain ⟨rfl, hne⟩ := nonEmpty_some h
  exact ⟨hk, wf_iflip32 ho _ wf_emptyRep _ _ (subHiFlip_le hi k), hne⟩

theorem walkSpec_flip {o : Ops32} (ho : o.Sound) (lo hi : Nat) :
    WalkSpec (· < 4294967296) (flipPresent o lo hi) (newFlipped o lo hi) id (flipF lo hi) where
  out_high _ := rfl
  out_set _ := rfl
  pres_high _ _ _ h := flipPresent_some h
  abs_high _ _ h := newFlipped_some h
  pres_mem k b y _ hb _ := by
    unfold flipPresent flipF
    rw [optMem_nonEmpty]
    simp only
    rw [mem_iflip32 ho _ (by rw [wf_writableBm]; exact hb.2.1) _ _ _ (subHiFlip_le hi k), toBSet_writableBm]
  abs_mem k y _ := abs_mem_flip ho lo hi k y

theorem wf_flipWalk {o : Ops32} (ho : o.Sound) (lo hi : Nat) (ks : List Nat) (bs : List Bucket)
    (hks : ks.Pairwise (· < ·)) (hkb : ∀ k ∈ ks, k < 4294967296) (hbs : BucketsWf bs) :
    BucketsWf (flipWalk o lo hi ks bs) := by
  unfold flipWalk
  refine wf_rangeWalk (K := (· < 4294967296)) (fun b hb => hb) (fun _ => rfl) ?_ (fun _ _ _ h => flipPresent_some h)
    (fun k b' hk h => abs_ok_flip ho lo hi k b' hk h) (fun _ _ h => newFlipped_some h) ks bs hks hkb hbs
  intro k b b' hk hb _ h
  obtain ⟨rfl, hne⟩ := nonEmpty_some h
  exact ⟨hk, wf_iflip32 ho _ (by rw [wf_writableBm]; exact hb.2.1) _ _ (subHiFlip_le hi k), hne⟩

theorem keys_lt_of_hi {lo hi : Nat} (hhi : hi < 18446744073709551616) :
    ∀ k ∈ keyRange (lo / 4294967296) (hi / 4294967296), k < 4294967296 := by
  intro k hk
  have := mem_keyRange hk
  omega

/-- `(*Bitmap).Flip(lo, hi)` returns a well-formed bitmap -/
theorem Rep64.wf_flip {o : Ops32} (ho : o.Sound) (r : Rep64) (hr : r.wf = true) (lo hi : Nat)
    (hhi : hi < 18446744073709551616) : (Rep64.flip o r lo hi).wf = true := by
  unfold Rep64.flip
  split
  · exact (bucketsWf_iff _).mpr (wf_flipWalk ho lo hi _ _ (pairwise_keyRange _ _) (keys_lt_of_hi hhi) ((bucketsWf_iff r).mp hr))
  · exact hr

theorem Rep64.mem_flip {o : Ops32} (ho : o.Sound) (r : Rep64) (hr : r.wf = true) (lo hi : Nat)
    (hhi : hi < 18446744073709551616) (x : Nat) :
    mem (Rep64.flip o r lo hi).toBSet x = (mem r.toBSet x != (decide (lo ≤ x) && decide (x < hi))) := by
  have hw := (bucketsWf_iff r).mp hr
  have hwf := Rep64.wf_flip ho r hr lo hi hhi
  rw [mem_rep64_buckets _ ((bucketsWf_iff _).mp hwf).bounded, mem_rep64_buckets r hw.bounded]
  unfold Rep64.flip
  split
  · simp only
    unfold flipWalk
    rw [has_rangeWalk (walkSpec_flip ho lo hi) _ _ (pairwise_keyRange _ _) (keys_lt_of_hi hhi) hw, contains_keyRange]
    unfold flipF
    rw [ite_bne, flipTest]
  · rename_i h; rw [rangeTest_false h, Bool.bne_false]

/-- **in-place `Flip`**: the stored result denotes the L1 `flipRange` -/
theorem Rep64.toBSet_flip {o : Ops32} (ho : o.Sound) (r : Rep64) (hr : r.wf = true) (lo hi : Nat)
    (hhi : hi < 18446744073709551616) : (Rep64.flip o r lo hi).toBSet = BSet.flipRange r.toBSet lo hi :=
  canon_ext_sinc _ _ (sinc_rep64 _) (sinc_flipRange _ (sinc_rep64 r) lo hi)
    (fun x => by rw [Rep64.mem_flip ho r hr lo hi hhi, mem_flipRange _ (sinc_rep64 r)])

/-! ### static `Flip` -/

theorem copyOutside_high (b : Bucket) : (copyOutside b).high = b.high := by
  unfold copyOutside; split <;> rfl

theorem copyOutside_set (b : Bucket) : (copyOutside b).bm.toBSet = b.bm.toBSet := by
  unfold copyOutside; split
  · rfl
  · exact Rep.toBSet_cloneB _

theorem copyOutside_ok (b : Bucket) (h : BucketOk b) : BucketOk (copyOutside b) := by
  unfold copyOutside; split
  · exact h
  · exact ⟨h.1, by rw [Rep.wf_cloneB]; exact h.2.1, by rw [Rep.isEmptyGo_cloneB]; exact h.2.2⟩

theorem sflipPresent_some {o : Ops32} {lo hi k : Nat} {b b' : Bucket} (h : sflipPresent o lo hi k b = some b') :
    b'.high = k := by
  obtain ⟨rfl, _⟩ := nonEmpty_some h; rfl

theorem walkSpec_sflip {o : Ops32} (ho : o.Sound) (lo hi : Nat) :
    WalkSpec (· < 4294967296) (sflipPresent o lo hi) (newFlipped o lo hi) copyOutside (flipF lo hi) where
  out_high := copyOutside_high
  out_set := copyOutside_set
  pres_high _ _ _ h := sflipPresent_some h
  abs_high _ _ h := newFlipped_some h
  pres_mem k b y _ hb _ := by
    unfold sflipPresent flipF
    rw [optMem_nonEmpty]
    simp only
    rw [mem_sflip32 ho _ hb.2.1 _ _ _ (subHiFlip_le hi k)]
  abs_mem k y _ := abs_mem_flip ho lo hi k y

theorem wf_sflipWalk {o : Ops32} (ho : o.Sound) (lo hi : Nat) (ks : List Nat) (bs : List Bucket)
    (hks : ks.Pairwise (· < ·)) (hkb : ∀ k ∈ ks, k < 4294967296) (hbs : BucketsWf bs) :
    BucketsWf (sflipWalk o lo hi ks bs) := by
  unfold sflipWalk
  refine wf_rangeWalk (K := (· < 4294967296)) copyOutside_ok copyOutside_high ?_ (fun _ _ _ h => sflipPresent_some h)
    (fun k b' hk h => abs_ok_flip ho lo hi k b' hk h) (fun _ _ h => newFlipped_some h) ks bs hks hkb hbs
  intro k b b' hk hb _ h
  obtain ⟨rfl, hne⟩ := nonEmpty_some h
  exact ⟨hk, wf_sflip32 ho _ hb.2.1 _ _ (subHiFlip_le hi k), hne⟩

/-! #### `(*roaring64.Bitmap).Clone()` -/

theorem wf_clone64 (r : Rep64) (hr : BucketsWf r.buckets) : BucketsWf r.clone.buckets := by
  unfold Rep64.clone
  split
  · refine ⟨List.Pairwise.map _ (fun _ _ h => h) hr.sorted, fun s hs => ?_⟩
    obtain ⟨b, hb, rfl⟩ := List.mem_map.mp hs
    exact hr.ok b hb
  · refine ⟨List.Pairwise.map _ (fun _ _ h => h) hr.sorted, fun s hs => ?_⟩
    obtain ⟨b, hb, rfl⟩ := List.mem_map.mp hs
    simp only [Rep.wf_cloneB, Rep.isEmptyGo_cloneB]
    exact hr.ok b hb

theorem bucketsHas_clone64 (r : Rep64) (x : Nat) : bucketsHas r.clone.buckets x = bucketsHas r.buckets x := by
  unfold Rep64.clone
  split
  · exact bucketsHas_map_out (out := fun b => { high := b.high, bm := b.bm, flag := true }) (fun _ => rfl)
      (fun _ => rfl) _ x
  · exact bucketsHas_map_out (out := fun b => { high := b.high, bm := b.bm.cloneB, flag := false }) (fun _ => rfl)
      (fun b => Rep.toBSet_cloneB b.bm) _ x

theorem Rep64.wf_clone (r : Rep64) (hr : r.wf = true) : r.clone.wf = true :=
  (bucketsWf_iff _).mpr (wf_clone64 r ((bucketsWf_iff r).mp hr))

theorem Rep64.toBSet_clone (r : Rep64) (hr : r.wf = true) : r.clone.toBSet = r.toBSet := by
  have hw := (bucketsWf_iff r).mp hr
  refine canon_ext_sinc _ _ (sinc_rep64 _) (sinc_rep64 _) (fun x => ?_)
  rw [mem_rep64_buckets _ (wf_clone64 r hw).bounded, mem_rep64_buckets r hw.bounded, bucketsHas_clone64]

/-- `roaring64.Flip(r, lo, hi)` returns a well-formed bitmap -/
theorem Rep64.wf_sflip {o : Ops32} (ho : o.Sound) (r : Rep64) (hr : r.wf = true) (lo hi : Nat)
    (hhi : hi < 18446744073709551616) : (Rep64.sflip o r lo hi).wf = true := by
  unfold Rep64.sflip
  split
  · exact (bucketsWf_iff _).mpr (wf_sflipWalk ho lo hi _ _ (pairwise_keyRange _ _) (keys_lt_of_hi hhi) ((bucketsWf_iff r).mp hr))
  · exact Rep64.wf_clone r hr

theorem Rep64.mem_sflip {o : Ops32} (ho : o.Sound) (r : Rep64) (hr : r.wf = true) (lo hi : Nat)
    (hhi : hi < 18446744073709551616) (x : Nat) :
    mem (Rep64.sflip o r lo hi).toBSet x = (mem r.toBSet x != (decide (lo ≤ x) && decide (x < hi))) := by
  have hw := (bucketsWf_iff r).mp hr
  have hwf := Rep64.wf_sflip ho r hr lo hi hhi
  rw [mem_rep64_buckets _ ((bucketsWf_iff _).mp hwf).bounded, mem_rep64_buckets r hw.bounded]
  unfold Rep64.sflip
  split
  · simp only
    unfold sflipWalk
    rw [has_rangeWalk (walkSpec_sflip ho lo hi) _ _ (pairwise_keyRange _ _) (keys_lt_of_hi hhi) hw, contains_keyRange]
    unfold flipF
    rw [ite_bne, flipTest]
  · rename_i h; rw [rangeTest_false h, Bool.bne_false, bucketsHas_clone64]

/-- **static `Flip`**: the stored result denotes the L1 `flipRange` -/
theorem Rep64.toBSet_sflip {o : Ops32} (ho : o.Sound) (r : Rep64) (hr : r.wf = true) (lo hi : Nat)
    (hhi : hi < 18446744073709551616) : (Rep64.sflip o r lo hi).toBSet = BSet.flipRange r.toBSet lo hi :=
  canon_ext_sinc _ _ (sinc_rep64 _) (sinc_flipRange _ (sinc_rep64 r) lo hi)
    (fun x => by rw [Rep64.mem_sflip ho r hr lo hi hhi, mem_flipRange _ (sinc_rep64 r)])

/-! ### `AddRange` -/

def addF (lo hi : Nat) (k : Nat) (m : Bool) (y : Nat) : Bool :=
  m || (decide (subLo lo k ≤ y) && decide (y < subHiLast hi k))

/-- the keys `AddRange` visits: below `2^32`, with a non-empty sub-range -/
def AddKey (lo hi : Nat) (k : Nat) : Prop := k < 4294967296 ∧ subLo lo k < subHiLast hi k

theorem addKey_of_mem {lo hi : Nat} (h : lo < hi) (hhi : hi ≤ 18446744073709551616) :
    ∀ k ∈ keyRange (lo / 4294967296) ((hi - 1) / 4294967296), AddKey lo hi k := by
  intro k hk
  have := mem_keyRange hk
  refine ⟨by omega, ?_⟩
  unfold subLo subHiLast
  split <;> split <;> omega

theorem isEmptyGo_addRange {o : Ops32} (ho : o.Sound) (r : Rep) (hr : r.wf = true) (s e : Nat) (h : s < e)
    (he : e ≤ 4294967296) : (o.addRange r s e).isEmptyGo = false := by
  cases hh : (o.addRange r s e).isEmptyGo with
  | false => rfl
  | true =>
    have h1 := mem_of_isEmptyGo hh s
    rw [ho.mem_addRange r s e s hr h he] at h1
    simp [h] at h1

theorem walkSpec_add {o : Ops32} (ho : o.Sound) (lo hi : Nat) :
    WalkSpec (AddKey lo hi)
      (fun k b => some { high := k, bm := o.addRange (writableBm b) (subLo lo k) (subHiLast hi k), flag := false })
      (fun k => some { high := k, bm := o.addRange {} (subLo lo k) (subHiLast hi k), flag := false })
      id (addF lo hi) where
  out_high _ := rfl
  out_set _ := rfl
  pres_high _ _ _ h := by cases h; rfl
  abs_high _ _ h := by cases h; rfl
  pres_mem k b y hk hb _ := by
    simp only [optMem, addF]
    rw [ho.mem_addRange _ _ _ _ (by rw [wf_writableBm]; exact hb.2.1) hk.2 (subHiLast_le hi k), toBSet_writableBm]
  abs_mem k y hk := by
    simp only [optMem, addF]
    rw [ho.mem_addRange _ _ _ _ wf_emptyRep hk.2 (subHiLast_le hi k), mem_emptyRep]

theorem wf_addWalk {o : Ops32} (ho : o.Sound) (lo hi : Nat) (ks : List Nat) (bs : List Bucket)
    (hks : ks.Pairwise (· < ·)) (hkb : ∀ k ∈ ks, AddKey lo hi k) (hbs : BucketsWf bs) :
    BucketsWf (addWalk o lo hi ks bs) := by
  unfold addWalk
  refine wf_rangeWalk (K := AddKey lo hi) (fun b hb => hb) (fun _ => rfl) ?_ (fun _ _ _ h => by cases h; rfl)
    ?_ (fun _ _ h => by cases h; rfl) ks bs hks hkb hbs
  · intro k b b' hk hb _ h
    cases h
    have hw : (writableBm b).wf = true := by rw [wf_writableBm]; exact hb.2.1
    exact ⟨hk.1, ho.wf_addRange _ _ _ hw hk.2 (subHiLast_le hi k),
      isEmptyGo_addRange ho _ hw _ _ hk.2 (subHiLast_le hi k)⟩
  · intro k b' hk h
    cases h
    exact ⟨hk.1, ho.wf_addRange _ _ _ wf_emptyRep hk.2 (subHiLast_le hi k),
      isEmptyGo_addRange ho _ wf_emptyRep _ _ hk.2 (subHiLast_le hi k)⟩

/-- `(*Bitmap).AddRange(lo, hi)` returns a well-formed bitmap -/
theorem Rep64.wf_addRange {o : Ops32} (ho : o.Sound) (r : Rep64) (hr : r.wf = true) (lo hi : Nat)
    (hhi : hi ≤ 18446744073709551616) : (Rep64.addRange o r lo hi).wf = true := by
  unfold Rep64.addRange
  split
  · rename_i h
    exact (bucketsWf_iff _).mpr (wf_addWalk ho lo hi _ _ (pairwise_keyRange _ _) (addKey_of_mem h hhi) ((bucketsWf_iff r).mp hr))
  · exact hr

theorem Rep64.mem_addRange {o : Ops32} (ho : o.Sound) (r : Rep64) (hr : r.wf = true) (lo hi : Nat)
    (hhi : hi ≤ 18446744073709551616) (x : Nat) :
    mem (Rep64.addRange o r lo hi).toBSet x = (mem r.toBSet x || (decide (lo ≤ x) && decide (x < hi))) := by
  have hw := (bucketsWf_iff r).mp hr
  have hwf := Rep64.wf_addRange ho r hr lo hi hhi
  rw [mem_rep64_buckets _ ((bucketsWf_iff _).mp hwf).bounded, mem_rep64_buckets r hw.bounded]
  unfold Rep64.addRange
  split
  · rename_i h
    simp only
    unfold addWalk
    rw [has_rangeWalk (walkSpec_add ho lo hi) _ _ (pairwise_keyRange _ _) (addKey_of_mem h hhi) hw, contains_keyRange]
    unfold addF
    rw [ite_or, lastTest lo hi x h]
  · rename_i h; rw [rangeTest_false h, Bool.or_false]

/-- **`AddRange`**: the stored result denotes the L1 `addRange` -/
theorem Rep64.toBSet_addRange {o : Ops32} (ho : o.Sound) (r : Rep64) (hr : r.wf = true) (lo hi : Nat)
    (hhi : hi ≤ 18446744073709551616) : (Rep64.addRange o r lo hi).toBSet = BSet.addRange r.toBSet lo hi :=
  canon_ext_sinc _ _ (sinc_rep64 _) (sinc_addRange _ (sinc_rep64 r) lo hi)
    (fun x => by rw [Rep64.mem_addRange ho r hr lo hi hhi, BSet.mem_addRange _ (sinc_rep64 r)])

/-! ### `RemoveRange` -/

theorem trimBucket_some {o : Ops32} {b b' : Bucket} {s e : Nat} (h : trimBucket o b s e = some b') : b'.high = b.high := by
  obtain ⟨rfl, _⟩ := nonEmpty_some h; rfl

theorem removeBucket_high {o : Ops32} {lo hi : Nat} {b b' : Bucket} (h : removeBucket o lo hi b = some b') :
    b'.high = b.high := by
  unfold removeBucket at h
  split at h
  · cases h; rfl
  · split at h
    · exact trimBucket_some h
    · split at h
      · split at h
        · cases h
        · exact trimBucket_some h
      · split at h
        · split at h
          · cases h
          · exact trimBucket_some h
        · cases h

theorem optMem_trimBucket {o : Ops32} (ho : o.Sound) (b : Bucket) (hb : BucketOk b) (s e y : Nat) (hse : s < e)
    (he : e ≤ 4294967296) :
    optMem (trimBucket o b s e) y = (mem b.bm.toBSet y && !(decide (s ≤ y) && decide (y < e))) := by
  unfold trimBucket
  rw [optMem_nonEmpty]
  simp only
  rw [ho.mem_removeRange _ _ _ _ (by rw [wf_writableBm]; exact hb.2.1) hse he, toBSet_writableBm]

theorem trimBucket_ok {o : Ops32} (ho : o.Sound) (b b' : Bucket) (hb : BucketOk b) (s e : Nat) (hse : s < e)
    (he : e ≤ 4294967296) (h : trimBucket o b s e = some b') : BucketOk b' := by
  obtain ⟨rfl, hne⟩ := nonEmpty_some h
  exact ⟨hb.1, ho.wf_removeRange _ _ _ (by rw [wf_writableBm]; exact hb.2.1) hse he, hne⟩

theorem and_not_congr (m : Bool) {t t' : Bool} (h : t = t') : (m && !t) = (m && !t') := by rw [h]

theorem removeBucket_mem {o : Ops32} (ho : o.Sound) (lo hi : Nat) (h : lo < hi) (b : Bucket) (hb : BucketOk b) (x : Nat)
    (hx : b.high = x / 4294967296) :
    optMem (removeBucket o lo hi b) (x % 4294967296) =
      (mem b.bm.toBSet (x % 4294967296) && !(decide (lo ≤ x) && decide (x < hi))) := by
  unfold removeBucket
  split
  · rename_i h1
    have ht : (decide (lo ≤ x) && decide (x < hi)) = false := by
      rw [Bool.eq_false_iff]
      simp only [ne_eq, Bool.and_eq_true, decide_eq_true_eq, Bool.or_eq_true] at h1 ⊢
      omega
    rw [ht]; simp only [optMem, Bool.not_false, Bool.and_true]
  · rename_i h1
    simp only [Bool.or_eq_true, decide_eq_true_eq, not_or, Nat.not_lt] at h1
    split
    · rename_i h2
      rw [optMem_trimBucket ho b hb _ _ _ (by omega) (by omega)]
      apply and_not_congr
      rw [Bool.eq_iff_iff]
      simp only [Bool.and_eq_true, decide_eq_true_eq]
      omega
    · rename_i h2
      split
      · rename_i h3
        split
        · rename_i h4
          have ht : (decide (lo ≤ x) && decide (x < hi)) = true := by
            simp only [Bool.and_eq_true, decide_eq_true_eq]
            omega
          rw [ht]; simp only [optMem, Bool.not_true, Bool.and_false]
        · rename_i h4
          rw [optMem_trimBucket ho b hb _ _ _ (by omega) (by omega)]
          apply and_not_congr
          rw [Bool.eq_iff_iff]
          simp only [Bool.and_eq_true, decide_eq_true_eq]
          omega
      · rename_i h3
        split
        · rename_i h4
          split
          · rename_i h5
            have ht : (decide (lo ≤ x) && decide (x < hi)) = true := by
              simp only [Bool.and_eq_true, decide_eq_true_eq]
              omega
            rw [ht]; simp only [optMem, Bool.not_true, Bool.and_false]
          · rename_i h5
            rw [optMem_trimBucket ho b hb _ _ _ (by omega) (by omega)]
            apply and_not_congr
            rw [Bool.eq_iff_iff]
            simp only [Bool.and_eq_true, decide_eq_true_eq]
            omega
        · rename_i h4
          have ht : (decide (lo ≤ x) && decide (x < hi)) = true := by
            simp only [Bool.and_eq_true, decide_eq_true_eq]
            omega
          rw [ht]; simp only [optMem, Bool.not_true, Bool.and_false]

theorem removeBucket_ok {o : Ops32} (ho : o.Sound) (lo hi : Nat) (h : lo < hi) (b b' : Bucket) (hb : BucketOk b)
    (hr : removeBucket o lo hi b = some b') : BucketOk b' := by
  unfold removeBucket at hr
  split at hr
  · cases hr; exact hb
  · split at hr
    · exact trimBucket_ok ho b b' hb _ _ (by omega) (by omega) hr
    · split at hr
      · split at hr
        · cases hr
        · exact trimBucket_ok ho b b' hb _ _ (by omega) (by omega) hr
      · split at hr
        · split at hr
          · cases hr
          · exact trimBucket_ok ho b b' hb _ _ (by omega) (by omega) hr
        · cases hr

theorem removeBucket_has {o : Ops32} (ho : o.Sound) (lo hi : Nat) (h : lo < hi) (b : Bucket) (hb : BucketOk b) (x : Nat) :
    optHas (removeBucket o lo hi b) x =
      ((b.high == x / 4294967296 && mem b.bm.toBSet (x % 4294967296)) && !(decide (lo ≤ x) && decide (x < hi))) := by
  rw [optHas_of_key (fun b' hb' => removeBucket_high hb')]
  by_cases hx : b.high = x / 4294967296
  · rw [removeBucket_mem ho lo hi h b hb x hx, Bool.and_assoc]
  · rw [beq_false_of_ne' hx]; simp only [Bool.false_and]

theorem or_and_right (a r c : Bool) : ((a || r) && c) = ((a && c) || (r && c)) := by
  cases a <;> cases r <;> cases c <;> rfl

theorem has_filterMap_remove {o : Ops32} (ho : o.Sound) (lo hi : Nat) (h : lo < hi) (l : List Bucket)
    (hl : ∀ b ∈ l, BucketOk b) (x : Nat) :
    bucketsHas (l.filterMap (removeBucket o lo hi)) x =
      (bucketsHas l x && !(decide (lo ≤ x) && decide (x < hi))) := by
  induction l with
  | nil => rw [List.filterMap_nil, bucketsHas_nil, Bool.false_and]
  | cons b t ih =>
    have hb := removeBucket_has ho lo hi h b (hl b List.mem_cons_self) x
    have iht := ih (fun b' hb' => hl b' (List.mem_cons_of_mem _ hb'))
    rw [bucketsHas_cons, or_and_right, ← hb, ← iht]
    cases hr : removeBucket o lo hi b with
    | none => rw [List.filterMap_cons_none hr]; simp only [optHas, Bool.false_or]
    | some b' => rw [List.filterMap_cons_some hr, bucketsHas_cons]; simp only [optHas]

theorem wf_filterMap_remove {o : Ops32} (ho : o.Sound) (lo hi : Nat) (h : lo < hi) (l : List Bucket) (hl : BucketsWf l) :
    BucketsWf (l.filterMap (removeBucket o lo hi)) := by
  refine ⟨List.Pairwise.filterMap _ (fun a a' haa b hb b' hb' => ?_) hl.sorted, fun s hs => ?_⟩
  · rw [removeBucket_high hb, removeBucket_high hb']; exact haa
  · obtain ⟨a, ha, hfa⟩ := List.mem_filterMap.mp hs
    exact removeBucket_ok ho lo hi h a s (hl.ok a ha) hfa

/-- `(*Bitmap).RemoveRange(lo, hi)` returns a well-formed bitmap -/
theorem Rep64.wf_removeRange {o : Ops32} (ho : o.Sound) (r : Rep64) (hr : r.wf = true) (lo hi : Nat) :
    (Rep64.removeRange o r lo hi).wf = true := by
  unfold Rep64.removeRange
  split
  · rename_i h
    exact (bucketsWf_iff _).mpr (wf_filterMap_remove ho lo hi h _ ((bucketsWf_iff r).mp hr))
  · exact hr

theorem Rep64.mem_removeRange {o : Ops32} (ho : o.Sound) (r : Rep64) (hr : r.wf = true) (lo hi : Nat) (x : Nat) :
    mem (Rep64.removeRange o r lo hi).toBSet x = (mem r.toBSet x && !(decide (lo ≤ x) && decide (x < hi))) := by
  have hw := (bucketsWf_iff r).mp hr
  have hwf := Rep64.wf_removeRange ho r hr lo hi
  rw [mem_rep64_buckets _ ((bucketsWf_iff _).mp hwf).bounded, mem_rep64_buckets r hw.bounded]
  unfold Rep64.removeRange
  split
  · rename_i h
    exact has_filterMap_remove ho lo hi h _ hw.ok x
  · rename_i h; rw [rangeTest_false h, Bool.not_false, Bool.and_true]

/-- **`RemoveRange`**: the stored result denotes the L1 `removeRange` (no bound on `hi`: no key loop) -/
theorem Rep64.toBSet_removeRange {o : Ops32} (ho : o.Sound) (r : Rep64) (hr : r.wf = true) (lo hi : Nat) :
    (Rep64.removeRange o r lo hi).toBSet = BSet.removeRange r.toBSet lo hi :=
  canon_ext_sinc _ _ (sinc_rep64 _) (sinc_removeRange _ (sinc_rep64 r) lo hi)
    (fun x => by rw [Rep64.mem_removeRange ho r hr lo hi, BSet.mem_removeRange _ (sinc_rep64 r)])

/-! ### the operand of static `Flip` afterwards: same set, still well-formed (inner flags only) -/

theorem sflipSrc_eq (lo hi : Nat) (b : Bucket) :
    ∃ c : Bool, R64Ops.sflipSrc lo hi b = if c = true then { high := b.high, bm := b.bm.cloneSrcB, flag := b.flag } else b :=
  ⟨_, rfl⟩

theorem sflipSrc_high (lo hi : Nat) (b : Bucket) : (R64Ops.sflipSrc lo hi b).high = b.high := by
  obtain ⟨c, hc⟩ := sflipSrc_eq lo hi b
  rw [hc]; cases c <;> rfl

theorem sflipSrc_set (lo hi : Nat) (b : Bucket) : (R64Ops.sflipSrc lo hi b).bm.toBSet = b.bm.toBSet := by
  obtain ⟨c, hc⟩ := sflipSrc_eq lo hi b
  rw [hc]; cases c
  · rfl
  · exact Rep.toBSet_cloneSrcB _

theorem sflipSrc_ok (lo hi : Nat) (b : Bucket) (h : BucketOk b) : BucketOk (R64Ops.sflipSrc lo hi b) := by
  obtain ⟨c, hc⟩ := sflipSrc_eq lo hi b
  rw [hc]; cases c
  · exact h
  · exact ⟨h.1, by simp only [if_true]; rw [Rep.wf_cloneSrcB]; exact h.2.1,
      by simp only [if_true]; rw [Rep.isEmptyGo_cloneSrcB]; exact h.2.2⟩

theorem wf_map_out {out : Bucket → Bucket} (h1 : ∀ b, (out b).high = b.high) (h2 : ∀ b, BucketOk b → BucketOk (out b))
    (l : List Bucket) (hl : BucketsWf l) : BucketsWf (l.map out) := by
  refine ⟨List.Pairwise.map _ (fun s t hst => by rw [h1, h1]; exact hst) hl.sorted, fun s hs => ?_⟩
  obtain ⟨b, hb, rfl⟩ := List.mem_map.mp hs
  exact h2 b (hl.ok b hb)

theorem wf_cloneSrc64 (r : Rep64) (hr : BucketsWf r.buckets) : BucketsWf r.cloneSrc.buckets := by
  unfold Rep64.cloneSrc
  split
  · exact wf_map_out (out := fun b => { high := b.high, bm := b.bm, flag := true }) (fun _ => rfl) (fun _ h => h) _ hr
  · exact wf_map_out (out := fun b => { high := b.high, bm := b.bm.cloneSrcB, flag := b.flag }) (fun _ => rfl)
      (fun b h => ⟨h.1, by rw [Rep.wf_cloneSrcB]; exact h.2.1, by rw [Rep.isEmptyGo_cloneSrcB]; exact h.2.2⟩) _ hr

theorem bucketsHas_cloneSrc64 (r : Rep64) (x : Nat) : bucketsHas r.cloneSrc.buckets x = bucketsHas r.buckets x := by
  unfold Rep64.cloneSrc
  split
  · exact bucketsHas_map_out (out := fun b => { high := b.high, bm := b.bm, flag := true }) (fun _ => rfl)
      (fun _ => rfl) _ x
  · exact bucketsHas_map_out (out := fun b => { high := b.high, bm := b.bm.cloneSrcB, flag := b.flag }) (fun _ => rfl)
      (fun b => Rep.toBSet_cloneSrcB b.bm) _ x

theorem Rep64.wf_sflipSrc (r : Rep64) (hr : r.wf = true) (lo hi : Nat) : (r.sflipSrc lo hi).wf = true := by
  have hw := (bucketsWf_iff r).mp hr
  unfold Rep64.sflipSrc
  split
  · exact (bucketsWf_iff _).mpr (wf_map_out (sflipSrc_high lo hi) (sflipSrc_ok lo hi) _ hw)
  · exact (bucketsWf_iff _).mpr (wf_cloneSrc64 r hw)

/-- static `Flip` leaves the set its operand denotes unchanged -/
theorem Rep64.toBSet_sflipSrc (r : Rep64) (hr : r.wf = true) (lo hi : Nat) : (r.sflipSrc lo hi).toBSet = r.toBSet := by
  have hw := (bucketsWf_iff r).mp hr
  have hwf := (bucketsWf_iff _).mp (Rep64.wf_sflipSrc r hr lo hi)
  refine canon_ext_sinc _ _ (sinc_rep64 _) (sinc_rep64 _) (fun x => ?_)
  rw [mem_rep64_buckets _ hwf.bounded, mem_rep64_buckets r hw.bounded]
  unfold Rep64.sflipSrc
  split
  · exact bucketsHas_map_out (sflipSrc_high lo hi) (sflipSrc_set lo hi) _ x
  · exact bucketsHas_cloneSrc64 r x

end RModel.Impl
