import RProofs.BSI32Ops
/-!
`TransposeWithCounts` at PLANE level: the index it returns — every plane, the number of planes, the existence bitmap — does not
depend on the number of workers nor on the order in which the batch results arrive on the channel and are added up
(`transposeWithCounts_planes_independent`, `transposeWithCounts_planes_order_independent`).  This is what lets the plane
tracker of the compiled checker follow a `btwc` result with ONE modelled worker whatever the script's worker count is.

Idea: call a plane list *tight* when its top plane (if there is one) is not empty (`LastNE`).  `SetValue` with a growing
count keeps an auto-sized index tight, `Add` of tight indexes is tight (no value reasoning: `addLoop_lastNE`), and a tight,
well-formed index of at most 64 planes is determined by its column → value map (`tight_ext`).
-/
namespace RModel.BSI32
open RModel.BSet
open RModel.BSI (Good good_nil good_union good_inter good_diff good_add batches cell)

/-- the top plane, when there is one, is not empty -/
def LastNE : List BSet → Prop
  | [] => True
  | [p] => p ≠ []
  | _ :: q :: rest => LastNE (q :: rest)

theorem lastNE_cons_of_ne (p : BSet) (l : List BSet) (hl : l ≠ []) : LastNE (p :: l) ↔ LastNE l := by
  cases l with
  | nil => exact absurd rfl hl
  | cons q rest => rfl

theorem lastNE_append (a l : List BSet) (hl : l ≠ []) : LastNE (a ++ l) ↔ LastNE l := by
  induction a with
  | nil => rfl
  | cons x a ih => rw [List.cons_append, lastNE_cons_of_ne _ _ (by simp [hl]), ih]

theorem lastNE_singleton (p : BSet) : LastNE [p] ↔ p ≠ [] := Iff.rfl

theorem good_ne_nil_mem (s : BSet) (h : Good s) (hne : s ≠ []) : ∃ x, mem s x = true := by
  apply Classical.byContradiction
  intro hc
  apply hne
  apply RModel.BSI.good_eq_nil s h
  intro x
  cases hm : mem s x
  · rfl
  · exact absurd ⟨x, hm⟩ hc

theorem ne_nil_of_mem (s : BSet) (x : Nat) (h : mem s x = true) : s ≠ [] := by
  intro e; rw [e] at h; simp at h

/-- the top plane as `getD (length - 1)` -/
theorem lastNE_getD : ∀ (ps : List BSet), ps ≠ [] → LastNE ps → ps.getD (ps.length - 1) [] ≠ []
  | [], h, _ => absurd rfl h
  | [p], _, h => by simpa [LastNE] using h
  | p :: q :: rest, _, h => by
    have ih := lastNE_getD (q :: rest) (by simp) h
    simpa using ih

/-! ### `Add` keeps the top plane non-empty -/

theorem addCarry_cons (p : BSet) (ps : List BSet) (f : BSet) :
    addCarry (p :: ps) f = if !(inter p f).isEmpty then xor p f :: addCarry ps (inter p f) else xor p f :: ps := rfl

theorem addCarry_ne_nil (ps : List BSet) (f : BSet) : addCarry ps f ≠ [] := by
  have := addCarry_length_pos ps f
  intro e; rw [e] at this; simp at this

theorem addCarry_lastNE : ∀ (ps : List BSet) (f : BSet), (∀ p ∈ ps, Good p) → Good f → ps ≠ [] → LastNE ps →
    LastNE (addCarry ps f)
  | [], _, _, _, h, _ => absurd rfl h
  | [p], f, hg, hf, _, h => by
    have hp := hg p (by simp)
    have hc := good_inter p f hp hf
    obtain ⟨x, hx⟩ := good_ne_nil_mem p hp h
    simp only [addCarry]
    split
    · rename_i hne
      have hcne : inter p f ≠ [] := by intro e; simp [e, isEmpty] at hne
      obtain ⟨y, hy⟩ := good_ne_nil_mem _ hc hcne
      show LastNE [xor p f, xor [] (inter p f)]
      apply ne_nil_of_mem _ y
      rw [mem_xor [] _ List.Pairwise.nil hc.1]; simpa using hy
    · rename_i he
      have he' : inter p f = [] := by simpa [isEmpty] using he
      have hfx : mem f x = false := by
        have : (mem p x && mem f x) = false := by rw [← mem_inter _ _ hp.1 hf.1, he']; rfl
        simpa [hx] using this
      show xor p f ≠ []
      apply ne_nil_of_mem _ x
      rw [mem_xor _ _ hp.1 hf.1, hx, hfx]; rfl
  | p :: q :: rest, f, hg, hf, _, h => by
    have hp := hg p (by simp)
    rw [addCarry_cons]
    split
    · rw [lastNE_cons_of_ne _ _ (addCarry_ne_nil _ _)]
      exact addCarry_lastNE (q :: rest) _ (fun r hr => hg r (by simp [hr])) (good_inter p f hp hf) (by simp) h
    · exact h

theorem addDigit_lastNE (ps : List BSet) (f : BSet) (i : Nat) (hg : ∀ p ∈ ps, Good p) (hf : Good f) (hi : i < ps.length)
    (h : LastNE ps) : LastNE (addDigit ps f i) := by
  have hd : ps.drop i ≠ [] := by
    intro e
    have := congrArg List.length e
    simp only [List.length_drop, List.length_nil] at this
    omega
  rw [addDigit, lastNE_append _ _ (addCarry_ne_nil _ _)]
  apply addCarry_lastNE _ _ (forall_drop _ _ _ hg) hf hd
  rw [← lastNE_append (ps.take i) _ hd, List.take_append_drop]
  exact h

theorem addDigit_lastNE_end (ps : List BSet) (f : BSet) (hf : Good f) (hne : f ≠ []) :
    LastNE (addDigit ps f ps.length) := by
  rw [addDigit, List.drop_length, lastNE_append _ _ (addCarry_ne_nil _ _)]
  obtain ⟨x, hx⟩ := good_ne_nil_mem f hf hne
  show xor [] f ≠ []
  apply ne_nil_of_mem _ x
  rw [mem_xor [] _ List.Pairwise.nil hf.1]; simpa using hx

theorem good_addDigit (ps : List BSet) (f : BSet) (i : Nat) (hg : ∀ p ∈ ps, Good p) (hf : Good f) :
    ∀ p ∈ addDigit ps f i, Good p := by
  intro p hp
  rcases List.mem_append.mp hp with hp | hp
  · exact hg p (List.mem_of_mem_take hp)
  · -- `addCarry` only produces `xor` / unchanged planes
    have : ∀ (qs : List BSet) (g : BSet), (∀ q ∈ qs, Good q) → Good g → ∀ r ∈ addCarry qs g, Good r := by
      intro qs
      induction qs with
      | nil =>
        intro g _ hgd r hr
        simp only [addCarry, List.mem_singleton] at hr
        subst hr; exact good_xor _ _ good_nil hgd
      | cons q qs ih =>
        intro g hq hgd r hr
        have hq0 := hq q (by simp)
        simp only [addCarry] at hr
        split at hr
        · rcases List.mem_cons.mp hr with rfl | hr
          · exact good_xor _ _ hq0 hgd
          · exact ih _ (fun s hs => hq s (by simp [hs])) (good_inter _ _ hq0 hgd) r hr
        · rcases List.mem_cons.mp hr with rfl | hr
          · exact good_xor _ _ hq0 hgd
          · exact hq r (by simp [hr])
    exact this _ f (forall_drop _ _ _ hg) hf p hp

/-- adding a tight, non-empty digit list to a tight plane list yields a tight plane list -/
theorem addLoop_lastNE : ∀ (qs ps : List BSet) (i : Nat), qs ≠ [] → LastNE qs → (∀ q ∈ qs, Good q) → (∀ p ∈ ps, Good p) →
    i ≤ ps.length → (i < ps.length → LastNE ps) → LastNE (addLoop ps qs i)
  | [], _, _, h, _, _, _, _, _ => absurd rfl h
  | [q], ps, i, _, hq, hgq, hgp, hi, hp => by
    have hq0 := hgq q (by simp)
    show LastNE (addDigit ps q i)
    rcases Nat.lt_or_eq_of_le hi with hlt | rfl
    · exact addDigit_lastNE ps q i hgp hq0 hlt (hp hlt)
    · exact addDigit_lastNE_end ps q hq0 hq
  | q :: q' :: rest, ps, i, _, hq, hgq, hgp, hi, hp => by
    have hq0 := hgq q (by simp)
    show LastNE (addLoop (addDigit ps q i) (q' :: rest) (i + 1))
    apply addLoop_lastNE (q' :: rest) _ (i + 1) (by simp) hq (fun r hr => hgq r (by simp [hr]))
      (good_addDigit ps q i hgp hq0) (addDigit_length ps q i hi)
    intro hlt
    rcases Nat.lt_or_eq_of_le hi with hlt' | rfl
    · exact addDigit_lastNE ps q i hgp hq0 hlt' (hp hlt')
    · -- `i = len ps`: the digit was appended, the list has exactly `i + 1` planes
      exfalso
      have : (addDigit ps q ps.length).length = ps.length + 1 := by
        simp [addDigit, addCarry]
      omega

/-- **`Add` keeps indexes tight** -/
theorem lastNE_addIndex (b o : Index) (h : WF b) (ho : WF o) (hb : LastNE b.planes) (hot : LastNE o.planes) :
    LastNE (addIndex b o).planes := by
  show LastNE (addLoop b.planes o.planes 0)
  by_cases he : o.planes = []
  · rw [he]; exact hb
  · exact addLoop_lastNE o.planes b.planes 0 he hot ho.planes h.planes (Nat.zero_le _) (fun _ => hb)

/-! ### `SetValue` with a growing value keeps an auto-sized index tight -/

theorem lastNE_iff_getD : ∀ (ps : List BSet), ps ≠ [] → (LastNE ps ↔ ps.getD (ps.length - 1) [] ≠ [])
  | [], h => absurd rfl h
  | [p], _ => by simp [LastNE]
  | p :: q :: rest, _ => by
    have ih := lastNE_iff_getD (q :: rest) (by simp)
    simpa [LastNE] using ih

theorem lastNE_of_mem (ps : List BSet) (hne : ps ≠ []) (x : Nat) (h : mem (ps.getD (ps.length - 1) []) x = true) :
    LastNE ps :=
  (lastNE_iff_getD ps hne).mpr (ne_nil_of_mem _ x h)

theorem lt_two_pow_of_not_testBit (x j : Nat) (h : x < 2 ^ (j + 1)) (hb : x.testBit j = false) : x < 2 ^ j := by
  have e := mod_succ_testBit x j
  rw [Nat.mod_eq_of_lt h, hb] at e
  have : x % 2 ^ j < 2 ^ j := Nat.mod_lt _ (Nat.two_pow_pos j)
  simp at e
  omega

theorem u64_of_pos (v : Int) (h1 : 1 ≤ v) (h2 : v ≤ max64) : u64 v = v.toNat ∧ u64 v ≠ 0 := by
  simp only [u64, max64] at *
  omega

/-- writing `v` into column `c` of a tight auto-sized index: tight again when the column held nothing or a smaller
non-negative value (the top bit of the widest value cannot disappear) -/
theorem setValue_lastNE (b : Index) (h : WF b) (ha : auto b = true) (hl : LastNE b.planes) (hL : b.planes.length ≤ 64)
    (c : Nat) (v : Int) (hv1 : 1 ≤ v) (hv2 : v ≤ max64) (hold : ∀ n, getValue b c = some n → 0 ≤ n ∧ n < v) :
    LastNE (setValue b c v).planes ∧ (setValue b c v).planes.length ≤ 64 := by
  obtain ⟨hu, hu0⟩ := u64_of_pos v hv1 hv2
  have hlen64 : len64 v = (u64 v).log2 + 1 := by simp [len64, hu0]
  have hlen : (setValue b c v).planes.length = max b.planes.length (len64 v) := by
    show (writeBits (mem b.ebm c) c v (widen b v) 0).length = _
    rw [writeBits_length, widen_length, if_pos ha]
  have h64 := len64_le_64 v
  refine ⟨?_, by rw [hlen]; omega⟩
  have hne : (setValue b c v).planes ≠ [] := by
    intro e
    have := congrArg List.length e
    rw [hlen] at this
    simp at this
    omega
  have hmem : ∀ k x, mem ((setValue b c v).planes.getD k []) x =
      if x = c then (decide (k < max b.planes.length (len64 v)) &&
        (bit64 v k || (!mem b.ebm c && mem (b.planes.getD k []) x)))
      else mem (b.planes.getD k []) x := by
    intro k x
    show mem ((writeBits (mem b.ebm c) c v (widen b v) 0).getD k []) x = _
    rw [getD_writeBits _ c v _ 0 k (fun p hp => (wf_widen b h v p hp).1.1) x, Nat.zero_add, getD_widen, widen_length,
      if_pos ha]
  by_cases hA : b.planes.length < len64 v
  · -- widened: the new top plane is the top bit of `v`
    apply lastNE_of_mem _ hne c
    rw [hlen, hmem, if_pos rfl]
    have e : max b.planes.length (len64 v) - 1 = (u64 v).log2 := by omega
    rw [e]
    have : bit64 v (u64 v).log2 = true := by
      rw [bit64_eq]; exact Nat.testBit_log2 hu0
    simp [this]; omega
  · -- not widened
    have hbne : b.planes ≠ [] := by
      intro e; rw [e] at hA; simp at hA; omega
    have hk : max b.planes.length (len64 v) - 1 = b.planes.length - 1 := by omega
    have hpos : 1 ≤ b.planes.length := by omega
    have htop := lastNE_getD b.planes hbne hl
    obtain ⟨x0, hx0⟩ := good_ne_nil_mem _ (h.getD_good (b.planes.length - 1)) htop
    by_cases hbit : bit64 v (b.planes.length - 1) = true
    · apply lastNE_of_mem _ hne c
      rw [hlen, hk, hmem, if_pos rfl, hbit]
      simp; omega
    · have hbit' : (u64 v).testBit (b.planes.length - 1) = false := by
        rw [← bit64_eq]; simpa using hbit
      have hvlt : u64 v < 2 ^ (b.planes.length - 1) := by
        apply lt_two_pow_of_not_testBit _ _ _ hbit'
        have h1 := lt_two_pow_len64 v
        have h2 : (2 : Nat) ^ len64 v ≤ 2 ^ (b.planes.length - 1 + 1) := Nat.pow_le_pow_right (by decide) (by omega)
        omega
      -- column `c` is not in the top plane
      have hc : mem (b.planes.getD (b.planes.length - 1) []) c = false := by
        cases hex : mem b.ebm c
        · cases hm : mem (b.planes.getD (b.planes.length - 1) []) c
          · rfl
          · have := h.getD_sub _ c hm
            rw [hex] at this; cases this
        · have hg : getValue b c = some (colValue b c) := by simp [getValue_eq, value, hex]
          have hn := hold _ hg
          have hraw : raw b c < u64 v := by
            have hr := raw_lt b c
            have : colValue b c = i64 (raw b c) := rfl
            rw [this] at hn
            simp only [i64, Nat.mod_eq_of_lt hr] at hn
            split at hn <;> omega
          have := testBit_raw b c (b.planes.length - 1)
          rw [Nat.testBit_lt_two_pow (Nat.lt_trans hraw hvlt)] at this
          have h63 : b.planes.length - 1 < 64 := by omega
          simpa [h63] using this.symm
      have hx0c : x0 ≠ c := by
        intro e; rw [e, hc] at hx0; cases hx0
      apply lastNE_of_mem _ hne x0
      rw [hlen, hk, hmem, if_neg hx0c]
      exact hx0

theorem lastNE_twcStep (input res : Index) (N : Nat → Nat) (h : WF res) (ha : auto res = true)
    (hN : ∀ k, getValue res k = cell (N k)) (hb : ∀ k, N k + 1 < 9223372036854775808)
    (hl : LastNE res.planes) (hL : res.planes.length ≤ 64) (c : Nat) :
    LastNE (twcStep input res c).planes ∧ (twcStep input res c).planes.length ≤ 64 := by
  simp only [twcStep]
  cases hg : getValue input c with
  | none => exact ⟨hl, hL⟩
  | some v =>
    simp only
    have hcell := hN (u32 v)
    cases hgv : getValue res (u32 v) with
    | none =>
      simp only
      exact setValue_lastNE res h ha hl hL _ 1 (by decide) (by decide) (fun n hn => by rw [hgv] at hn; cases hn)
    | some n =>
      simp only
      have hn : n = (N (u32 v) : Int) ∧ N (u32 v) ≠ 0 := by
        rw [hgv] at hcell
        simp only [cell] at hcell
        split at hcell
        · cases hcell
        · exact ⟨Option.some.inj hcell, by assumption⟩
      have hbk := hb (u32 v)
      exact setValue_lastNE res h ha hl hL _ (n + 1) (by omega) (by simp only [max64]; omega)
        (fun m hm => by rw [hgv] at hm; cases hm; omega)

/-- the worker's result is tight and has at most 64 planes -/
theorem lastNE_twcBatch (input : Index) (cols : List Nat) (hb : cols.length < 9223372036854775808) :
    LastNE (twcBatch input cols).planes ∧ (twcBatch input cols).planes.length ≤ 64 := by
  have key : ∀ (cols : List Nat) (res : Index) (N : Nat → Nat), WF res → auto res = true →
      (∀ k, getValue res k = cell (N k)) → (∀ k, N k + cols.length < 9223372036854775808) →
      LastNE res.planes → res.planes.length ≤ 64 →
      LastNE (cols.foldl (twcStep input) res).planes ∧ (cols.foldl (twcStep input) res).planes.length ≤ 64 := by
    intro cols
    induction cols with
    | nil => intro res N _ _ _ _ hl hL; exact ⟨hl, hL⟩
    | cons c cols ih =>
      intro res N h ha hN hb hl hL
      have hb1 : ∀ k, N k + 1 < 9223372036854775808 := fun k => by
        have := hb k; simp only [List.length_cons] at this; omega
      have hs := lastNE_twcStep input res N h ha hN hb1 hl hL c
      simp only [List.foldl_cons]
      exact ih _ (fun k => N k + (hits input k c).toNat) (wf_twcStep input res h c) (by rw [auto_twcStep]; exact ha)
        (twcStep_spec input res N h ha hN hb1 c)
        (fun k => by
          have := hb k
          simp only [List.length_cons] at this
          cases hits input k c <;> simp <;> omega) hs.1 hs.2
  exact key cols newDefault (fun _ => 0) (wf_new 0 0) rfl (fun k => by rw [newDefault, getValue_new]; rfl)
    (fun _ => by simpa using hb) (by simp [newDefault, new, LastNE, len64, u64]) (by simp [newDefault, new, len64, u64])

/-! ### a tight well-formed index of at most 64 planes is determined by its map -/

theorem raw_of_getValue_eq (a b : Index) (ha : WF a) (hb : WF b) (hv : ∀ c, getValue a c = getValue b c) (c : Nat) :
    mem a.ebm c = mem b.ebm c ∧ raw a c = raw b c := by
  have h := hv c
  rw [getValue_eq, getValue_eq, value, value] at h
  cases hma : mem a.ebm c <;> cases hmb : mem b.ebm c <;> rw [hma, hmb] at h
  · exact ⟨rfl, by rw [raw_absent a ha c hma, raw_absent b hb c hmb]⟩
  · cases h
  · cases h
  · refine ⟨rfl, ?_⟩
    have e : colValue a c = colValue b c := Option.some.inj h
    rw [← u64_i64 _ (raw_lt a c), ← u64_i64 _ (raw_lt b c)]
    exact congrArg u64 e

theorem length_le_of_tight (a b : Index) (ha : WF a) (_hb : WF b) (hla : LastNE a.planes) (h64a : a.planes.length ≤ 64)
    (h64b : b.planes.length ≤ 64) (hraw : ∀ c, raw a c = raw b c) : a.planes.length ≤ b.planes.length := by
  apply Classical.byContradiction
  intro hlt
  have hne : a.planes ≠ [] := by intro e; rw [e] at hlt; simp at hlt
  have htop := lastNE_getD a.planes hne hla
  obtain ⟨x, hx⟩ := good_ne_nil_mem _ (ha.getD_good _) htop
  have h1 := testBit_raw a x (a.planes.length - 1)
  rw [hx] at h1
  have h63 : a.planes.length - 1 < 64 := by omega
  simp only [h63, decide_true, Bool.and_self] at h1
  have hge := Nat.ge_two_pow_of_testBit h1
  have hlt2 := (word_eq_raw b h64b x).2
  rw [hraw x] at hge
  have : (2 : Nat) ^ bitCount b ≤ 2 ^ (a.planes.length - 1) := Nat.pow_le_pow_right (by decide) (by
    simp only [bitCount]; omega)
  omega

/-- **`tight_ext`**: two well-formed, tight indexes of at most 64 planes that denote the same map have the same planes and the
same existence bitmap -/
theorem tight_ext (a b : Index) (ha : WF a) (hb : WF b) (hla : LastNE a.planes) (hlb : LastNE b.planes)
    (h64a : a.planes.length ≤ 64) (h64b : b.planes.length ≤ 64) (hv : ∀ c, getValue a c = getValue b c) :
    a.planes = b.planes ∧ a.ebm = b.ebm := by
  have hr := raw_of_getValue_eq a b ha hb hv
  have hlen : a.planes.length = b.planes.length :=
    Nat.le_antisymm (length_le_of_tight a b ha hb hla h64a h64b (fun c => (hr c).2))
      (length_le_of_tight b a hb ha hlb h64b h64a (fun c => ((hr c).2).symm))
  refine ⟨?_, good_ext _ _ ha.ebm hb.ebm (fun x => by rw [(hr x).1])⟩
  apply List.ext_getElem hlen
  intro i h1 h2
  have ga : a.planes.getD i [] = a.planes[i] := by simp [List.getD_eq_getElem?_getD, h1]
  have gb : b.planes.getD i [] = b.planes[i] := by simp [List.getD_eq_getElem?_getD, h2]
  rw [← ga, ← gb]
  apply good_ext _ _ (ha.getD_good i) (hb.getD_good i)
  intro x
  have ta := testBit_raw a x i
  have tb := testBit_raw b x i
  have hi : i < 64 := by omega
  simp only [hi, decide_true, Bool.true_and] at ta tb
  rw [← ta, ← tb, (hr x).2]

/-! ### `TransposeWithCounts`: the returned index does not depend on workers or arrival order -/

theorem word_of_cell (r : Index) (h : WF r) (h64 : r.planes.length ≤ 64) (k A : Nat) (hA : getValue r k = cell A)
    (hb : A < 9223372036854775808) : word r.planes k = A := by
  rw [(word_eq_raw r h64 k).1]
  rw [getValue_eq, value] at hA
  simp only [cell] at hA
  cases hm : mem r.ebm k <;> rw [hm] at hA
  · simp only [Bool.false_eq_true, if_false] at hA
    have : A = 0 := by
      by_cases e : A = 0
      · exact e
      · rw [if_neg e] at hA; cases hA
    rw [raw_absent r h k hm, this]
  · simp only [if_true] at hA
    by_cases e0 : A = 0
    · rw [if_pos e0] at hA; cases hA
    · rw [if_neg e0] at hA
      have e : colValue r k = (A : Int) := Option.some.inj hA
      have hr := raw_lt r k
      simp only [colValue, i64, Nat.mod_eq_of_lt hr] at e
      split at e <;> omega

/-- the fold of `Add` over the batch results: well formed, tight, the unbounded column words are the counts -/
theorem sumResults_tight (input : Index) : ∀ (bts : List (List Nat)) (acc : Index) (A : Nat → Nat), WF acc →
    LastNE acc.planes → (∀ k, getValue acc k = cell (A k)) → (∀ k, word acc.planes k = A k) →
    (∀ k, A k + bts.flatten.length < 9223372036854775808) →
    LastNE ((bts.map (twcBatch input)).foldl addIndex acc).planes ∧
    ∀ k, word ((bts.map (twcBatch input)).foldl addIndex acc).planes k = A k + countOf input bts.flatten k
  | [], _, _, _, hl, _, hW, _ => ⟨hl, fun k => by simp [countOf, hW k]⟩
  | bt :: bts, acc, A, h, hl, hA, hW, hb => by
    simp only [List.map_cons, List.foldl_cons]
    have hlen : ∀ k, A k + (bt.length + bts.flatten.length) < 9223372036854775808 := fun k => by
      have := hb k; simpa using this
    have hbl : bt.length < 9223372036854775808 := by have := hlen 0; omega
    have hbt := twcBatch_spec input bt hbl
    have hbt2 := lastNE_twcBatch input bt hbl
    have ih := sumResults_tight input bts (addIndex acc (twcBatch input bt)) (fun k => A k + countOf input bt k)
      (wf_addIndex _ _ h hbt.1) (lastNE_addIndex _ _ h hbt.1 hl hbt2.1)
      (fun k => get_addIndex_cell acc _ h hbt.1 k _ _ (hA k) (hbt.2 k) (by
        have := hlen k; have := countOf_le input bt k; omega))
      (fun k => by
        rw [word_addIndex acc _ h hbt.1, hW k,
          word_of_cell _ hbt.1 hbt2.2 k _ (hbt.2 k) (by have := countOf_le input bt k; omega)])
      (fun k => by have := hlen k; have := countOf_le input bt k; omega)
    refine ⟨ih.1, fun k => ?_⟩
    rw [ih.2 k]
    simp only [countOf, List.flatten_cons, List.countP_append]
    omega

/-- a tight plane list whose column words stay below `2^63` has at most 63 planes -/
theorem length_le_of_words (ps : List BSet) (hl : LastNE ps) (hg : ∀ p ∈ ps, Good p)
    (hb : ∀ k, word ps k < 9223372036854775808) : ps.length ≤ 64 := by
  apply Classical.byContradiction
  intro hgt
  have hne : ps ≠ [] := by intro e; rw [e] at hgt; simp at hgt
  have htop := lastNE_getD ps hne hl
  obtain ⟨x, hx⟩ := good_ne_nil_mem _ (mem_getD_of_forall _ Good hg good_nil _) htop
  have hw : (word ps x).testBit (ps.length - 1) = true := by
    rw [word, ← RModel.BSI.mem_plane]; exact hx
  have hge := Nat.ge_two_pow_of_testBit hw
  have hp : (2 : Nat) ^ 64 ≤ 2 ^ (ps.length - 1) := Nat.pow_le_pow_right (by decide) (by omega)
  have := hb x
  have p64 : (2 : Nat) ^ 64 = 18446744073709551616 := by decide
  omega

/-- everything known about the sum of the batch results of ANY list of batches whose concatenation has fewer than `2^63`
columns -/
theorem sumResults_canonical (input : Index) (bts : List (List Nat)) (hlen : bts.flatten.length < 9223372036854775808) :
    WF (sumResults (bts.map (twcBatch input))) ∧ LastNE (sumResults (bts.map (twcBatch input))).planes ∧
    (sumResults (bts.map (twcBatch input))).planes.length ≤ 64 ∧
    ∀ k, getValue (sumResults (bts.map (twcBatch input))) k = cell (countOf input bts.flatten k) := by
  have h0 : ∀ k, getValue newDefault k = cell ((fun _ => 0) k) := fun k => by rw [newDefault, getValue_new]; rfl
  have hw0 : ∀ k, word newDefault.planes k = (fun _ => 0) k := fun k => by
    simp [newDefault, new, word, RModel.BSI.col, RModel.BSI.encN, len64, u64]
  have hl0 : LastNE newDefault.planes := by simp [newDefault, new, LastNE, len64, u64]
  have hb : ∀ k : Nat, (fun _ => 0) k + bts.flatten.length < 9223372036854775808 := fun _ => by simpa using hlen
  have h1 := foldl_addIndex_spec input bts newDefault (fun _ => 0) (wf_new 0 0) h0 hb
  have h2 := sumResults_tight input bts newDefault (fun _ => 0) (wf_new 0 0) hl0 h0 hw0 hb
  refine ⟨h1.1, h2.1, ?_, fun k => by simpa [sumResults] using h1.2 k⟩
  apply length_le_of_words _ h2.1 h1.1.planes
  intro k
  have := h2.2 k
  have hc := countOf_le input bts.flatten k
  omega

/-- **`transposeWithCounts_planes_order_independent`**: whatever the number of workers and whatever the order in which the batch
results are added up, `TransposeWithCounts` returns THE SAME index — the same planes, the same number of planes, the same
existence bitmap (and `MaxValue = MinValue = 0`) — as one worker does. -/
theorem transposeWithCounts_planes_order_independent (input : Index) (n : Nat) (found : Option BSet)
    (hlen : card (found.getD input.ebm) < 9223372036854775808) (bts : List (List Nat))
    (hp : bts.Perm (batches n (toList (found.getD input.ebm)))) :
    sumResults (bts.map (twcBatch input)) = transposeWithCounts input 1 found := by
  have hfl : bts.flatten.Perm (toList (found.getD input.ebm)) := by
    have := hp.flatten; rwa [batches_flatten] at this
  have hl1 : bts.flatten.length < 9223372036854775808 := by rw [hfl.length_eq, toList_length]; exact hlen
  have hl2 : (batches 1 (toList (found.getD input.ebm))).flatten.length < 9223372036854775808 := by
    rw [batches_flatten, toList_length]; exact hlen
  obtain ⟨w1, t1, l1, g1⟩ := sumResults_canonical input bts hl1
  obtain ⟨w2, t2, l2, g2⟩ := sumResults_canonical input _ hl2
  have hv : ∀ c, getValue (sumResults (bts.map (twcBatch input))) c =
      getValue (sumResults ((batches 1 (toList (found.getD input.ebm))).map (twcBatch input))) c := by
    intro c
    rw [g1 c, g2 c, batches_flatten]
    simp only [countOf, hfl.countP_eq]
  have := tight_ext _ _ w1 w2 t1 t2 l1 l2 hv
  have hmm : ∀ (rs : List Index), (sumResults rs).maxValue = 0 ∧ (sumResults rs).minValue = 0 := by
    intro rs
    have : ∀ (rs : List Index) (acc : Index), (rs.foldl addIndex acc).maxValue = acc.maxValue ∧
        (rs.foldl addIndex acc).minValue = acc.minValue := by
      intro rs
      induction rs with
      | nil => intro acc; exact ⟨rfl, rfl⟩
      | cons r rs ih => intro acc; simpa [addIndex] using ih (addIndex acc r)
    exact this rs newDefault
  show sumResults (bts.map (twcBatch input)) =
    sumResults ((batches 1 (toList (found.getD input.ebm))).map (twcBatch input))
  have e1 := hmm (bts.map (twcBatch input))
  have e2 := hmm ((batches 1 (toList (found.getD input.ebm))).map (twcBatch input))
  generalize sumResults (bts.map (twcBatch input)) = X at *
  generalize sumResults ((batches 1 (toList (found.getD input.ebm))).map (twcBatch input)) = Y at *
  cases X; cases Y
  simp only at this e1 e2
  simp [this.1, this.2, e1.1, e1.2, e2.1, e2.2]

/-- **`transposeWithCounts_planes_independent`**: the same index for every two worker counts -/
theorem transposeWithCounts_planes_independent (input : Index) (n m : Nat) (found : Option BSet)
    (hlen : card (found.getD input.ebm) < 9223372036854775808) :
    transposeWithCounts input n found = transposeWithCounts input m found := by
  rw [show transposeWithCounts input n found = transposeWithCounts input 1 found from
      transposeWithCounts_planes_order_independent input n found hlen _ (List.Perm.refl _),
    show transposeWithCounts input m found = transposeWithCounts input 1 found from
      transposeWithCounts_planes_order_independent input m found hlen _ (List.Perm.refl _)]

-- the planes of the histogram of `exT` ({1:5, 2:7, 3:5, 9:0, 12:7, 13:7}): counts 1 (key 0), 2 (key 5), 3 (key 7) on two planes
example : [1, 2, 3, 7].map (fun n => (transposeWithCounts exT n none).planes) = List.replicate 4 [[0, 1, 7, 8], [5, 6, 7, 8]] := by
  decide +kernel
example : transposeWithCounts exT 3 none = transposeWithCounts exT 5 none :=
  transposeWithCounts_planes_independent exT 3 5 none (by decide +kernel)

end RModel.BSI32
