import RProofs.ByteInput
/-!
The portable decoder as a CLIENT of the byte-input interface.

`decodeProg` is `roaringArray.readFrom` written against `ReadUInt32 / ReadUInt16 / Next / SkipBytes` only (a `Prog`, see
`RModel/Impl/ByteInput.lean`).  It is proved to be the byte-list decoder model `RModel.Impl.decode` (the model all C05 / C10
theorems are about) when run on a `ByteBuffer` — and therefore, by `prog_adapter_eq_buf`, when run on a `ByteInputAdapter` over
a reader that delivers the bytes in ANY chunk sizes: `decode_via_adapter`.
-/
namespace RModel.Impl.ByteIn
open RModel RModel.Impl

def Val.asNum : Val → Nat
  | .num v => v
  | _ => 0

def Val.asBytes : Val → Bytes
  | .bytes l => l
  | _ => []

/-- bit `i` of the is-run bitmap (`isRunBitmap[i/8] & (1 << (i%8)) != 0`), `false` without run cookie -/
def runBitOf (isRun : Option Bytes) (i : Nat) : Bool :=
  match isRun with
  | some rb => (rb.getD (i / 8) 0).toNat / 2 ^ (i % 8) % 2 == 1
  | none => false

/-- the container loop of `readFrom` (continuation-passing: `k` receives the slots read) -/
def readContainersProg {β : Type} (P : SerParams) (flag : Bool) (isRun : Option Bytes) :
    (i : Nat) → List (Nat × Nat) → (List Slot → Prog β) → Prog β
  | _, [], k => k []
  | i, (key, cardm1) :: rest, k =>
    let card := cardm1 + 1
    let runBit := runBitOf isRun i
    let cont : Cont → Prog β := fun c =>
      readContainersProg P flag isRun (i + 1) rest (fun ss => k ({ key := key, c := c, flag := flag } :: ss))
    if runBit then
      .op .u16 fun nr => .op (.next (nr.asNum * 4)) fun p => cont (.run (pairs16 (bytesTo16s p.asBytes)))
    else if card > P.arrayMax then
      .op (.next (P.arrayMax * 2)) fun p => cont (.bmp card (bytesToWords p.asBytes))
    else
      .op (.next (card * 2)) fun p => cont (.arr (bytesTo16s p.asBytes))

/-- everything after the size is known: descriptive header, offsets skipped, containers -/
def decodeBody (P : SerParams) (flag : Bool) (size : Nat) (isRun : Option Bytes) : Prog Rep :=
  if size > 65536 then .abort
  else
    .op (.next (4 * size)) fun kc =>
      let keycard := pairs16 (bytesTo16s kc.asBytes)
      let rest : Prog Rep := readContainersProg P flag isRun 0 keycard (fun slots => .ret { cow := false, slots := slots })
      if isRun.isNone || size ≥ P.noOffsetThreshold then .op (.skip (4 * size)) fun _ => rest else rest

/-- `roaringArray.readFrom(stream)` as a client of `internal.ByteInput`; `flag = !stream.NextReturnsSafeSlice()` -/
def decodeProg (P : SerParams) (flag : Bool) : Prog Rep :=
  .op .u32 fun cv =>
    let cookie := cv.asNum
    if cookie % 65536 == P.serialCookie then
      let size := cookie / 65536 + 1
      .op (.next ((size + 7) / 8)) fun rb => decodeBody P flag size (some rb.asBytes)
    else if cookie == P.serialCookieNoRun then
      .op .u32 fun sv => decodeBody P flag sv.asNum none
    else .abort

/-! ### clients on a byte list -/

/-- a client run directly on the list of unread bytes -/
def Prog.runList {α : Type} : Prog α → Bytes → Option (α × Bytes)
  | .ret a, l => some (a, l)
  | .abort, _ => none
  | .op o k, l =>
    match takeN o.size l with
    | some (p, t) => (k (o.val p)).runList t
    | none => none

theorem runBuf_eq_runList {α : Type} (p : Prog α) (b : Buf) (hw : b.wf) :
    p.runBuf b = (p.runList b.cursor).map fun (a, t) => (a, b.data.length - t.length) := by
  induction p generalizing b with
  | ret a =>
    unfold Buf.wf at hw
    simp only [Prog.runBuf, Prog.runList, Buf.cursor, Buf.getReadBytes, Option.map_some, List.length_drop]
    congr 2; omega
  | abort => rfl
  | op o k ih =>
    simp only [Prog.runBuf, Prog.runList, buf_step_spec, takeN, Buf.cursor, List.length_drop]
    by_cases hle : o.size ≤ b.data.length - b.off
    · simp only [hle, if_true]
      have hw' : ({ b with off := b.off + o.size } : Buf).wf := by unfold Buf.wf at *; simp only; omega
      rw [ih _ _ hw']
      simp [Buf.cursor, List.drop_drop]
    · simp only [hle, if_false, Option.map_none]

/-- what a client leaves unread is a suffix of what it was given -/
theorem runList_suffix {α : Type} (p : Prog α) (l : Bytes) (a : α) (t : Bytes) (h : p.runList l = some (a, t)) :
    t.length ≤ l.length ∧ t = l.drop (l.length - t.length) := by
  induction p generalizing l with
  | ret x =>
    simp only [Prog.runList, Option.some.injEq, Prod.mk.injEq] at h
    rw [← h.2]; simp
  | abort => simp [Prog.runList] at h
  | op o k ih =>
    simp only [Prog.runList, takeN] at h
    by_cases hle : o.size ≤ l.length
    · simp only [hle, if_true] at h
      obtain ⟨h1, h2⟩ := ih _ _ h
      simp only [List.length_drop] at h1 h2
      refine ⟨by omega, ?_⟩
      have e : l.length - t.length = o.size + (l.length - o.size - t.length) := by omega
      rw [e, ← List.drop_drop]
      exact h2
    · simp [hle] at h

theorem runBufS_eq_runList {α : Type} (p : Prog α) (b : Buf) (hw : b.wf) :
    p.runBufS b = (p.runList b.cursor).map fun (a, t) => (a, { b with off := b.data.length - t.length }) := by
  induction p generalizing b with
  | ret a =>
    unfold Buf.wf at hw
    simp only [Prog.runBufS, Prog.runList, Buf.cursor, Option.map_some, List.length_drop]
    have : b.data.length - (b.data.length - b.off) = b.off := by omega
    rw [this]
  | abort => rfl
  | op o k ih =>
    simp only [Prog.runBufS, Prog.runList, buf_step_spec, takeN, Buf.cursor, List.length_drop]
    by_cases hle : o.size ≤ b.data.length - b.off
    · simp only [hle, if_true]
      have hw' : ({ b with off := b.off + o.size } : Buf).wf := by unfold Buf.wf at *; simp only; omega
      rw [ih _ _ hw']
      simp [Buf.cursor, List.drop_drop]
    · simp only [hle, if_false, Option.map_none]

/-! ### the client is the decoder model -/

theorem readContainers_cons (P : SerParams) (flag : Bool) (isRun : Option Bytes) (i key cardm1 : Nat)
    (rest : List (Nat × Nat)) (bs : Bytes) :
    readContainers P flag isRun i ((key, cardm1) :: rest) bs =
      let one : Option (Cont × Bytes) :=
        if runBitOf isRun i then
          match rd16 bs with
          | none => none
          | some (nr, bs1) => (takeN (nr * 4) bs1).map fun (p, bs2) => (.run (pairs16 (bytesTo16s p)), bs2)
        else if cardm1 + 1 > P.arrayMax then
          (takeN (P.arrayMax * 2) bs).map fun (p, bs2) => (.bmp (cardm1 + 1 : Nat) (bytesToWords p), bs2)
        else
          (takeN ((cardm1 + 1) * 2) bs).map fun (p, bs2) => (.arr (bytesTo16s p), bs2)
      match one with
      | none => none
      | some (c, bs2) =>
        match readContainers P flag isRun (i + 1) rest bs2 with
        | none => none
        | some (ss, bs3) => some ({ key := key, c := c, flag := flag } :: ss, bs3) := by
  cases isRun <;> rfl

theorem readContainersProg_runList {β : Type} (P : SerParams) (flag : Bool) (isRun : Option Bytes)
    (kc : List (Nat × Nat)) (i : Nat) (k : List Slot → Prog β) (bs : Bytes) :
    (readContainersProg P flag isRun i kc k).runList bs =
      match readContainers P flag isRun i kc bs with
      | none => none
      | some (ss, bs') => (k ss).runList bs' := by
  induction kc generalizing i k bs with
  | nil => simp [readContainersProg, readContainers]
  | cons hd rest ih =>
    obtain ⟨key, cardm1⟩ := hd
    rw [readContainers_cons]
    simp only [readContainersProg]
    by_cases hb : runBitOf isRun i = true
    · -- run container
      simp only [hb, if_true, Prog.runList, Op.size, Op.val, rd16_eq_takeN]
      cases h2 : takeN 2 bs with
      | none => simp
      | some pt =>
        obtain ⟨p, t⟩ := pt
        simp only [Option.map_some, Val.asNum]
        cases h4 : takeN (le16 p * 4) t with
        | none => simp
        | some pt2 =>
          obtain ⟨p2, t2⟩ := pt2
          simp only [Option.map_some, Val.asBytes, ih]
          cases readContainers P flag isRun (i + 1) rest t2 with
          | none => rfl
          | some r => rfl
    · simp only [hb, if_false, Bool.false_eq_true]
      by_cases hc : cardm1 + 1 > P.arrayMax
      · simp only [hc, if_true, Prog.runList, Op.size, Op.val]
        cases h4 : takeN (P.arrayMax * 2) bs with
        | none => simp
        | some pt2 =>
          obtain ⟨p2, t2⟩ := pt2
          simp only [Option.map_some, Val.asBytes, ih]
          cases readContainers P flag isRun (i + 1) rest t2 with
          | none => rfl
          | some r => rfl
      · simp only [hc, if_false, Prog.runList, Op.size, Op.val]
        cases h4 : takeN ((cardm1 + 1) * 2) bs with
        | none => simp
        | some pt2 =>
          obtain ⟨p2, t2⟩ := pt2
          simp only [Option.map_some, Val.asBytes, ih]
          cases readContainers P flag isRun (i + 1) rest t2 with
          | none => rfl
          | some r => rfl

/-- the tail of `decode` after the header, as a function (shared by both cookie branches) -/
def decodeTail (P : SerParams) (flag : Bool) (bs : Bytes) (size : Nat) (isRun : Option Bytes) (bs2 : Bytes) : Outcome (Rep × Nat) :=
  if size > 65536 then .err else
  match takeN (4 * size) bs2 with
  | none => .err
  | some (kc, bs3) =>
    let keycard := pairs16 (bytesTo16s kc)
    let skipped : Option Bytes :=
      if isRun.isNone || size ≥ P.noOffsetThreshold then (takeN (4 * size) bs3).map (·.2) else some bs3
    match skipped with
    | none => .err
    | some bs4 =>
      match readContainers P flag isRun 0 keycard bs4 with
      | none => .err
      | some (slots, rest) => .ok ({ cow := false, slots := slots }, bs.length - rest.length)

/-- how a list run is reported by `decode`: the representation and the number of bytes consumed -/
def report (bs : Bytes) : Option (Rep × Bytes) → Outcome (Rep × Nat)
  | some (r, rest) => .ok (r, bs.length - rest.length)
  | none => .err

theorem decodeBody_runList (P : SerParams) (flag : Bool) (bs : Bytes) (size : Nat) (isRun : Option Bytes) (bs2 : Bytes) :
    report bs ((decodeBody P flag size isRun).runList bs2) = decodeTail P flag bs size isRun bs2 := by
  unfold decodeBody decodeTail
  by_cases hs : size > 65536
  · simp [hs, Prog.runList, report]
  · simp only [hs, if_false, Prog.runList, Op.size, Op.val, Val.asBytes]
    cases h1 : takeN (4 * size) bs2 with
    | none => simp [report]
    | some pt =>
      obtain ⟨kc, bs3⟩ := pt
      simp only
      by_cases hc : (isRun.isNone || size ≥ P.noOffsetThreshold) = true
      · simp only [hc, if_true, Prog.runList, Op.size]
        cases h2 : takeN (4 * size) bs3 with
        | none => simp [report]
        | some pt2 =>
          obtain ⟨sk, bs4⟩ := pt2
          simp only [Option.map_some, readContainersProg_runList]
          cases readContainers P flag isRun 0 (pairs16 (bytesTo16s kc)) bs4 with
          | none => simp [report]
          | some r => obtain ⟨ss, rest⟩ := r; simp [report, Prog.runList]
      · simp only [hc, if_false, Bool.false_eq_true, readContainersProg_runList]
        cases readContainers P flag isRun 0 (pairs16 (bytesTo16s kc)) bs3 with
        | none => simp [report]
        | some r => obtain ⟨ss, rest⟩ := r; simp [report, Prog.runList]

theorem decode_eq_tail (P : SerParams) (flag : Bool) (bs : Bytes) :
    decode P flag bs =
      match rd32 bs with
      | none => .err
      | some (cookie, bs1) =>
        if cookie % 65536 == P.serialCookie then
          match takeN ((cookie / 65536 + 1 + 7) / 8) bs1 with
          | none => .err
          | some (rb, bs2) => decodeTail P flag bs (cookie / 65536 + 1) (some rb) bs2
        else if cookie == P.serialCookieNoRun then
          match rd32 bs1 with
          | none => .err
          | some (size, bs2) => decodeTail P flag bs size none bs2
        else .err := by
  unfold decode
  cases h0 : rd32 bs with
  | none => rfl
  | some cb =>
    obtain ⟨cookie, bs1⟩ := cb
    simp only
    by_cases hc1 : (cookie % 65536 == P.serialCookie) = true
    · simp only [hc1, if_true]
      cases takeN ((cookie / 65536 + 1 + 7) / 8) bs1 with
      | none => rfl
      | some pt => obtain ⟨rb, bs2⟩ := pt; rfl
    · simp only [hc1, if_false, Bool.false_eq_true]
      by_cases hc2 : (cookie == P.serialCookieNoRun) = true
      · simp only [hc2, if_true]
        cases rd32 bs1 with
        | none => rfl
        | some pt => obtain ⟨size, bs2⟩ := pt; rfl
      · simp only [hc2, if_false, Bool.false_eq_true]

/-- the client run on the byte list IS the decoder model -/
theorem decodeProg_runList (P : SerParams) (flag : Bool) (bs : Bytes) :
    report bs ((decodeProg P flag).runList bs) = decode P flag bs := by
  rw [decode_eq_tail]
  unfold decodeProg
  simp only [Prog.runList, Op.size, Op.val, rd32_eq_takeN]
  cases h0 : takeN 4 bs with
  | none => simp [report]
  | some pt =>
    obtain ⟨p, bs1⟩ := pt
    simp only [Option.map_some, Val.asNum]
    by_cases hc1 : (le32 p % 65536 == P.serialCookie) = true
    · simp only [hc1, if_true, Prog.runList, Op.size, Op.val]
      cases h1 : takeN ((le32 p / 65536 + 1 + 7) / 8) bs1 with
      | none => simp [report]
      | some pt1 =>
        obtain ⟨rb, bs2⟩ := pt1
        simp only [Val.asBytes]
        exact decodeBody_runList P flag bs _ _ bs2
    · simp only [hc1, if_false, Bool.false_eq_true]
      by_cases hc2 : (le32 p == P.serialCookieNoRun) = true
      · simp only [hc2, if_true, Prog.runList, Op.size, Op.val]
        cases h1 : takeN 4 bs1 with
        | none => simp [report]
        | some pt1 =>
          obtain ⟨sp, bs2⟩ := pt1
          simp only [Option.map_some]
          exact decodeBody_runList P flag bs _ _ bs2
      · simp only [hc2, if_false, Bool.false_eq_true, Prog.runList, report]

/-- how a run on one of the two implementations is reported -/
def reportRun : Option (Rep × Nat) → Outcome (Rep × Nat)
  | some (r, n) => .ok (r, n)
  | none => .err

/-- `FromBuffer` / `FromUnsafeBytes`: the decoder client on a `ByteBuffer` over `bs` returns what the decoder model returns,
including the number of bytes consumed (`GetReadBytes()` at the end) -/
theorem decode_via_buf (P : SerParams) (flag : Bool) (bs : Bytes) :
    reportRun ((decodeProg P flag).runBuf (Buf.mk bs 0)) = decode P flag bs := by
  rw [runBuf_eq_runList _ _ (Nat.zero_le _), ← decodeProg_runList]
  simp only [Buf.cursor, List.drop_zero]
  cases (decodeProg P flag).runList bs with
  | none => rfl
  | some r => obtain ⟨a, t⟩ := r; rfl

/-- **`ReadFrom` on a stream delivered in arbitrary chunk sizes**: the decoder client on a `ByteInputAdapter` over any reader of
`bs` (any chunk schedule, short reads, either end-of-data convention) returns what the decoder model returns on the byte list —
same representation, same byte count, error in the same cases -/
theorem decode_via_adapter (P : SerParams) (flag : Bool) (bs : Bytes) (sched : List Nat) (eager : Bool) :
    reportRun ((decodeProg P flag).runAdapter (Adapter.mk (Reader.ofData bs sched none eager) 0)) = decode P flag bs := by
  rw [prog_adapter_eq_buf_fresh, decode_via_buf]

/-- the decoder client started anywhere in a buffer: what the decoder model says about the unread bytes, and the buffer is left
right behind the bytes consumed -/
theorem decodeProg_runBufS (P : SerParams) (flag : Bool) (b : Buf) (hw : b.wf) :
    (decodeProg P flag).runBufS b =
      match decode P flag b.cursor with
      | .ok (r, m) => some (r, { b with off := b.off + m })
      | _ => none := by
  rw [runBufS_eq_runList _ _ hw, ← decodeProg_runList]
  cases h : (decodeProg P flag).runList b.cursor with
  | none => rfl
  | some r =>
    obtain ⟨a, t⟩ := r
    obtain ⟨h1, _⟩ := runList_suffix _ _ _ _ h
    unfold Buf.wf at hw
    simp only [Buf.cursor, List.length_drop] at h1
    simp only [report, Option.map_some, Buf.cursor, List.length_drop]
    have : b.data.length - t.length = b.off + (b.data.length - b.off - t.length) := by omega
    rw [this]

/-- a successful run of the decoder model consumes at least the 4 cookie bytes and at most the input -/
theorem decode_consumed (P : SerParams) (flag : Bool) (bs : Bytes) (r : Rep) (m : Nat) (h : decode P flag bs = .ok (r, m)) :
    4 ≤ m ∧ m ≤ bs.length := by
  rw [← decodeProg_runList] at h
  cases hr : (decodeProg P flag).runList bs with
  | none => simp [hr, report] at h
  | some x =>
    obtain ⟨a, t⟩ := x
    simp only [hr, report, Outcome.ok.injEq, Prod.mk.injEq] at h
    obtain ⟨_, hm⟩ := h
    unfold decodeProg at hr
    simp only [Prog.runList, Op.size, takeN] at hr
    by_cases h4 : 4 ≤ bs.length
    · simp only [h4, if_true] at hr
      obtain ⟨h1, _⟩ := runList_suffix _ _ _ _ hr
      simp only [List.length_drop] at h1
      omega
    · simp [h4] at hr

/-- non-vacuity: the serialized bitmap {1, 2, 3} (no-run cookie 12346, one array container) read through an adapter whose
reader delivers 3, then 2, then 3 … bytes -/
example :
    (decodeProg ⟨12347, 12346, 4, 4096⟩ false).runAdapter
      (Adapter.mk (Reader.ofData [0x3a, 0x30, 0, 0, 1, 0, 0, 0, 0, 0, 2, 0, 16, 0, 0, 0, 1, 0, 2, 0, 3, 0] [3, 2] none) 0) =
    some ({ cow := false, slots := [{ key := 0, c := .arr [1, 2, 3], flag := false }] }, 22) := by
  rfl

end RModel.Impl.ByteIn
