import RProofs.ContQueryGlue
import RProofs.ContQueryArr
import RProofs.ContQueryBmpCount
import RProofs.ContQueryBmpScan
/-!
`numberOfRuns`, `isFull`, `isEmpty` of the container query model (`RModel/Impl/ContQuery.lean`) against the set
abstraction: the model of the Go `numberOfRuns` kernels computes the number of maximal runs of the set, i.e. half the
length of the canonical boundary list.
Core Lean only; no `native_decide`, `bv_decide`, axioms.
-/
namespace RModel.Impl
open RModel RModel.BSet ContOps ContQuery

set_option linter.unusedVariables false

/-! ### a member of a well-formed container -/

theorem nr_exists_has {c : Cont} (hc : c.wf = true) : ∃ x, c.has x = true := by
  cases c with
  | arr xs =>
    have h := wf_arr hc
    cases xs with
    | nil => have := h.pos; simp at this
    | cons a t => exact ⟨a, by simp [Cont.has]⟩
  | bmp cd ws =>
    obtain ⟨hl, _, hgt⟩ := wf_bmp hc
    have hlen := length_valsOfWords ws
    cases hv : valsOfWords ws with
    | nil => rw [hv] at hlen; simp at hlen; omega
    | cons a t =>
      exact ⟨a, by simp only [Cont.has]; exact (mem_valsOfWords ws a).mp (by rw [hv]; simp)⟩
  | run rs =>
    have h := wf_run hc
    cases rs with
    | nil => exact absurd rfl h.ne
    | cons p t => exact ⟨p.1, by simp [Cont.has, inRuns_cons]⟩

theorem isEmptyQ_spec (c : Cont) (hc : c.wf = true) : c.isEmptyQ = BSet.isEmpty (c.toBSet 0) := by
  have h1 : c.isEmptyQ = false := by
    cases c with
    | arr xs => have := (wf_arr hc).pos; simp [Cont.isEmptyQ]; intro h; simp [h] at this
    | bmp cd ws =>
      obtain ⟨_, hcd, hgt⟩ := wf_bmp hc
      simp [Cont.isEmptyQ]; omega
    | run rs => have := (wf_run hc).ne; simp [Cont.isEmptyQ]; exact this
  have h2 : BSet.isEmpty (c.toBSet 0) = false := by
    cases h : BSet.isEmpty (c.toBSet 0)
    · rfl
    · have := (isEmpty_iff _ (sinc_toBSet c) (even_toBSet hc)).mp h
      obtain ⟨x, hx⟩ := nr_exists_has hc
      have := this x
      rw [mem_toBSet, hx] at this; simp at this
  rw [h1, h2]

/-! ### isFull -/

theorem nr_full_iff {c : Cont} (hc : c.wf = true) : c.toBSet 0 = [0, 65536] ↔ ∀ x, x < 65536 → c.has x = true := by
  constructor
  · intro h x hx
    rw [← mem_toBSet, h, mem_pair]; simp [hx]
  · intro h
    apply canon_ext 65536 _ _ (canon_toBSet hc)
    · refine ⟨by simp, by simp, by simp⟩
    · intro x
      rw [mem_toBSet, mem_pair]
      by_cases hx : x < 65536
      · rw [h x hx]; simp [hx]
      · cases hh : c.has x
        · simp [hx]
        · have := has_lt hc hh; omega

theorem nr_run_full {rs : List (Nat × Nat)} (h : RunWf rs) (hall : ∀ x, x < 65536 → inRuns rs x = true) :
    rs = [(0, 65535)] := by
  cases rs with
  | nil => exact absurd rfl h.ne
  | cons p t =>
    have hsep := h.sep
    have hb := h.bound p (by simp)
    have hnt : ∀ x, x ≤ p.1 + p.2 + 1 → inRuns t x = false := by
      intro x hx
      cases hh : inRuns t x
      · rfl
      · have := inRuns_tail_gt hsep hh; omega
    have h0 : p.1 = 0 := by
      have := hall 0 (by omega)
      rw [inRuns_cons, hnt 0 (by omega)] at this
      simp at this; exact this
    have h1 : p.2 = 65535 := by
      apply Classical.byContradiction; intro hne
      have := hall (p.1 + p.2 + 1) (by omega)
      rw [inRuns_cons, hnt _ (by omega)] at this
      simp at this; omega
    have ht : t = [] := by
      cases t with
      | nil => rfl
      | cons q t' =>
        have h2 := (List.pairwise_cons.mp hsep).1 q (by simp)
        have h3 := h.bound q (by simp)
        omega
    subst ht
    obtain ⟨a, b⟩ := p
    simp only at h0 h1
    subst h0; subst h1; rfl

theorem isFullQ_spec (c : Cont) (hc : c.wf = true) : c.isFullQ = (c.toBSet 0 == [0, 65536]) := by
  have hiff := nr_full_iff hc
  cases c with
  | arr xs =>
    have hw := wf_arr hc
    simp only [Cont.isFullQ]
    symm
    rw [beq_eq_false_iff_ne]
    intro heq
    have hall := hiff.mp heq
    simp only [Cont.has] at hall
    have h1 := cnt_arr_all hw.sorted 65536 hw.bound
    have h2 := cnt_eq_of_all xs.contains (Nat.zero_le 65536) (fun u _ hu => hall u hu)
    rw [cnt_zero] at h2
    have := hw.le
    omega
  | bmp cd ws =>
    obtain ⟨hl, hcd, hgt⟩ := wf_bmp hc
    simp only [Cont.isFullQ, Cont.has] at hiff ⊢
    rw [Bool.eq_iff_iff, beq_iff_eq, beq_iff_eq, hiff]
    constructor
    · intro h x hx
      rw [testBit_of_full ws hl (by omega)]; simp [hx]
    · intro hall
      have h2 := cnt_eq_of_all (testBit ws) (Nat.zero_le 65536) (fun u _ hu => hall u hu)
      rw [cnt_zero] at h2
      have := wordsCard_eq_cnt ws
      rw [hl, show 64 * 1024 = 65536 from rfl] at this
      omega
  | run rs =>
    have hw := wf_run hc
    simp only [Cont.isFullQ, Cont.has] at hiff ⊢
    rw [Bool.eq_iff_iff, beq_iff_eq, hiff]
    constructor
    · intro h
      simp only [runIsFull, rStart, rLast, Bool.and_eq_true, beq_iff_eq] at h
      obtain ⟨hlen, hs, hlast⟩ := h
      match rs, hlen with
      | [(s, l)], _ =>
        have hb := hw.bound (s, l) (by simp)
        simp only [List.getD_cons_zero, add16] at hs hlast hb
        subst hs
        have : l = 65535 := by omega
        subst this
        intro x hx; rw [inRuns_full]; simp [hx]
    · intro hall
      rw [nr_run_full hw hall]
      decide

/-! ### run starts and run ends of a membership predicate -/

/-- `x` is the first value of a maximal run of `p` -/
def nrStart (p : Nat → Bool) (x : Nat) : Bool := p x && !(decide (0 < x) && p (x - 1))
/-- `x` is the last value of a maximal run of `p` -/
def nrEnd (p : Nat → Bool) (x : Nat) : Bool := p x && !p (x + 1)

def nrStarts (p : Nat → Bool) (n : Nat) : Nat := cnt (nrStart p) n
def nrEnds (p : Nat → Bool) (n : Nat) : Nat := cnt (nrEnd p) n

theorem nr_starts_congr {p q : Nat → Bool} (n : Nat) (h : ∀ x, x < n → p x = q x) : nrStarts p n = nrStarts q n := by
  apply cnt_congr
  intro x hx
  simp only [nrStart]
  rw [h x hx]
  by_cases h0 : 0 < x
  · rw [h (x - 1) (by omega)]
  · simp [h0]

/-- the runs that have begun below `n` and not ended below `n` are those covering `n - 1` and `n` -/
theorem nr_starts_ends (p : Nat → Bool) (n : Nat) :
    nrStarts p n = nrEnds p n + (if (decide (0 < n) && p (n - 1) && p n) = true then 1 else 0) := by
  induction n with
  | zero => simp [nrStarts, nrEnds, cnt_zero]
  | succ n ih =>
    simp only [nrStarts, nrEnds] at ih ⊢
    rw [cnt_succ, cnt_succ, ih]
    simp only [nrStart, nrEnd, Nat.add_sub_cancel, Nat.zero_lt_succ, decide_true, Bool.true_and]
    have key : ∀ a b c : Bool, ((if (c && a) = true then 1 else 0) + (if (a && !c) = true then 1 else 0) : Nat)
        = (if (a && !b) = true then 1 else 0) + (if (a && b) = true then 1 else 0) := by decide
    have := key (p n) (p (n + 1)) (decide (0 < n) && p (n - 1))
    rw [Nat.add_assoc, Nat.add_assoc]
    exact congrArg _ this

theorem nr_starts_eq_ends (p : Nat → Bool) (n : Nat) (h : p n = false) : nrStarts p n = nrEnds p n := by
  rw [nr_starts_ends, h]; simp

/-- adding one start -/
theorem nr_cnt_or_single (q : Nat → Bool) (a n : Nat) (ha : a < n) (hq : q a = false) :
    cnt (fun x => decide (x = a) || q x) n = cnt q n + 1 := by
  have h1 : cnt (fun x => decide (x = a) || q x) a = cnt q a :=
    cnt_congr a (fun x hx => by simp [show x ≠ a by omega])
  have h2 : cnt (fun x => decide (x = a) || q x) (a + 1) = cnt q (a + 1) + 1 := by
    rw [cnt_succ, cnt_succ, h1, hq]; simp
  have h3 := cnt_diff_congr (p := q) (q := fun x => decide (x = a) || q x) (show a + 1 ≤ n by omega)
    (fun j h1 h2 => by simp [show j ≠ a by omega])
  omega

/-- `q` is `p` with the interval `[a, b]` added strictly below (and not adjacent to) every member of `p` -/
theorem nr_start_prepend (p q : Nat → Bool) (a b : Nat) (hab : a ≤ b)
    (h1 : ∀ x, x < a → q x = false) (h2 : ∀ x, a ≤ x → x ≤ b → q x = true)
    (h4 : ∀ x, b + 1 ≤ x → q x = p x) (h5 : ∀ x, x ≤ b + 1 → p x = false) (x : Nat) :
    nrStart q x = (decide (x = a) || nrStart p x) := by
  simp only [nrStart]
  by_cases c1 : x < a
  · rw [h1 x c1, h5 x (by omega)]; simp; omega
  · by_cases c2 : x = a
    · subst c2
      rw [h2 x (Nat.le_refl _) hab]
      by_cases c0 : 0 < x
      · rw [h1 (x - 1) (by omega)]; simp
      · simp [c0]
    · by_cases c3 : x ≤ b
      · rw [h2 x (by omega) c3, h2 (x - 1) (by omega) (by omega), h5 x (by omega)]; simp [c2]; omega
      · by_cases c4 : x = b + 1
        · subst c4
          rw [h4 _ (Nat.le_refl _), h5 _ (Nat.le_refl _)]; simp [c2]
        · rw [h4 x (by omega), h4 (x - 1) (by omega)]; simp [c2]

theorem nr_starts_prepend (p q : Nat → Bool) (a b n : Nat) (hab : a ≤ b) (han : a < n)
    (h1 : ∀ x, x < a → q x = false) (h2 : ∀ x, a ≤ x → x ≤ b → q x = true)
    (h4 : ∀ x, b + 1 ≤ x → q x = p x) (h5 : ∀ x, x ≤ b + 1 → p x = false) :
    nrStarts q n = nrStarts p n + 1 := by
  unfold nrStarts
  rw [← nr_cnt_or_single (nrStart p) a n han (by simp [nrStart, h5 a (by omega)])]
  exact cnt_congr n (fun x _ => nr_start_prepend p q a b hab h1 h2 h4 h5 x)

/-! ### the boundary list: half its length is the number of run starts -/

theorem nr_bset_starts (s : BSet) (hs : SInc s) (he : Even s) :
    ∀ U, (∀ b ∈ s, b ≤ U) → s.length / 2 = nrStarts (mem s) U := by
  induction s, hs, he using even_induction with
  | nil =>
    intro U _
    have := cnt_eq_of_none (nrStart (mem [])) (Nat.zero_le U) (fun _ _ _ => by simp [nrStart, mem])
    rw [cnt_zero] at this
    simp [nrStarts, this]
  | step lo hi r hlh ht _ _ _ _ ih =>
    intro U hU
    obtain ⟨f1, f2, f3, f4⟩ := step_facts lo hi r hlh ht
    have hhi : hi ≤ U := hU hi (by simp)
    rw [nr_starts_prepend (mem r) (mem (lo :: hi :: r)) lo (hi - 1) U (by omega) (by omega) f1
      (fun x a b => f2 x a (by omega)) (fun x a => f3 x (by omega)) (fun x a => f4 x (by omega)),
      ← ih U (fun b hb => hU b (by simp [hb]))]
    simp only [List.length_cons]; omega

theorem nr_toBSet_starts {c : Cont} (hc : c.wf = true) : (c.toBSet 0).length / 2 = nrStarts c.has 65536 := by
  rw [nr_bset_starts _ (sinc_toBSet c) (even_toBSet hc) 65536 (canon_toBSet hc).2.1]
  exact nr_starts_congr _ (fun x _ => mem_toBSet c x)

/-! ### run container -/

theorem nr_starts_none (p : Nat → Bool) (n : Nat) (h : ∀ x, x < n → p x = false) : nrStarts p n = 0 := by
  have := cnt_eq_of_none (nrStart p) (Nat.zero_le n) (fun u _ hu => by simp [nrStart, h u hu])
  rw [cnt_zero] at this
  exact this

theorem nr_run_starts : ∀ (rs : List (Nat × Nat)), RunSep rs → (∀ p ∈ rs, p.1 + p.2 ≤ 65535) →
    nrStarts (inRuns rs) 65536 = rs.length
  | [], _, _ => by rw [nr_starts_none _ _ (fun x _ => inRuns_nil x)]; rfl
  | p :: t, hsep, hb => by
    have hbp := hb p (by simp)
    have hnt : ∀ x, x ≤ p.1 + p.2 + 1 → inRuns t x = false := by
      intro x hx
      cases hh : inRuns t x
      · rfl
      · have := inRuns_tail_gt hsep hh; omega
    rw [nr_starts_prepend (inRuns t) (inRuns (p :: t)) p.1 (p.1 + p.2) 65536 (by omega) (by omega)
      (fun x hx => by rw [inRuns_cons, hnt x (by omega)]; simp; omega)
      (fun x h1 h2 => by rw [inRuns_cons]; simp [h1, h2])
      (fun x hx => by rw [inRuns_cons]; simp; omega)
      hnt,
      nr_run_starts t (List.pairwise_cons.mp hsep).2 (fun q hq => hb q (by simp [hq]))]
    simp

/-! ### array container -/

theorem nr_cnt_succ (p : Nat → Bool) (n : Nat) : cnt p (n + 1) = cnt p n + (p n).toNat := by
  rw [cnt_succ]; cases p n <;> rfl

/-- adding the single value `a` strictly below every member of `p` -/
theorem nr_starts_insert (p q : Nat → Bool) (a : Nat) (hq : ∀ x, q x = (decide (x = a) || p x))
    (hp : ∀ x, x ≤ a → p x = false) (n : Nat) :
    nrStarts q n + (decide (a + 1 < n) && p (a + 1)).toNat = nrStarts p n + (decide (a < n)).toNat := by
  induction n with
  | zero => simp [nrStarts, cnt_zero]
  | succ n ih =>
    simp only [nrStarts] at ih ⊢
    rw [nr_cnt_succ, nr_cnt_succ]
    have hs : nrStart q n = (decide (n = a) || (nrStart p n && !decide (n = a + 1))) := by
      simp only [nrStart, hq]
      by_cases c1 : n = a
      · subst c1
        by_cases c0 : 0 < n
        · simp [hp (n - 1) (by omega), show n - 1 ≠ n by omega]
        · simp [c0]
      · by_cases c2 : n = a + 1
        · subst c2; simp
        · by_cases c0 : 0 < n
          · simp [c1, c2, show n - 1 ≠ a by omega]
          · simp [c0, c1, c2]
    have hpn : n ≤ a + 1 → nrStart p n = p n := by
      intro h
      simp only [nrStart]
      by_cases c0 : 0 < n
      · rw [hp (n - 1) (by omega)]; simp
      · simp [c0]
    rw [hs]
    rcases Nat.lt_trichotomy n a with c | c | c
    · have h0 : nrStart p n = false := by rw [hpn (by omega), hp n (by omega)]
      simp [h0, show ¬ n = a by omega, show ¬ n = a + 1 by omega, show ¬ a + 1 < n + 1 by omega,
        show ¬ a + 1 < n by omega, show ¬ a < n + 1 by omega, show ¬ a < n by omega] at ih ⊢
      omega
    · subst c
      have h0 : nrStart p n = false := by rw [hpn (by omega), hp n (by omega)]
      simp [h0, show ¬ n + 1 < n by omega] at ih ⊢
      omega
    · by_cases c2 : n = a + 1
      · subst c2
        rw [hpn (by omega)]
        simp [show a < a + 1 + 1 by omega] at ih ⊢
        cases p (a + 1) <;> simp <;> omega
      · simp [show ¬ n = a by omega, c2, show a + 1 < n + 1 by omega,
          show a + 1 < n by omega, show a < n + 1 by omega, show a < n by omega] at ih ⊢
        omega

theorem nr_arr_loop : ∀ (xs : List Nat), xs ≠ [] → xs.Pairwise (· < ·) → (∀ v ∈ xs, v < 65536) →
    ∃ k, arrRunsLoop xs = some k ∧ nrStarts xs.contains 65536 = k + 1
  | [], h, _, _ => absurd rfl h
  | [a], _, _, hb => by
    refine ⟨0, rfl, ?_⟩
    have hba := hb a (by simp)
    have := nr_starts_insert (fun _ => false) [a].contains a (fun x => by simp) (fun _ _ => rfl) 65536
    rw [nr_starts_none _ _ (fun _ _ => rfl)] at this
    simp [hba] at this
    exact this
  | prev :: cur :: t, _, hs, hb => by
    have hs1 := List.pairwise_cons.mp hs
    have hpc : prev < cur := hs1.1 cur (by simp)
    have hbc := hb cur (by simp)
    obtain ⟨k, hk, hn⟩ := nr_arr_loop (cur :: t) (by simp) hs1.2 (fun v hv => hb v (by simp [hv]))
    have hins := nr_starts_insert (cur :: t).contains (prev :: cur :: t).contains prev
      (fun x => by simp)
      (fun x hx => by
        cases hh : (cur :: t).contains x
        · rfl
        · have := hs1.1 x (by simpa using hh); omega) 65536
    have hp1 : (cur :: t).contains (prev + 1) = decide (cur = prev + 1) := by
      by_cases e : cur = prev + 1
      · simp [e]
      · have h2 := List.pairwise_cons.mp hs1.2
        cases hh : (cur :: t).contains (prev + 1)
        · simp [e]
        · simp at hh
          rcases hh with hh | hh
          · omega
          · have := h2.1 _ hh; omega
    rw [hp1, hn] at hins
    unfold arrRunsLoop
    rw [add16_eq (by omega)]
    by_cases e : cur = prev + 1
    · rw [if_pos e]
      refine ⟨k, hk, ?_⟩
      subst e
      simp [show prev < 65536 by omega, show prev + 1 < 65536 by omega] at hins
      omega
    · rw [if_neg e, if_neg (by omega), if_neg (by omega), hk]
      refine ⟨k + 1, rfl, ?_⟩
      simp [e, show prev < 65536 by omega] at hins
      omega

theorem nr_arr {xs : List Nat} (hw : ArrWf xs) : arrNumberOfRuns xs = (nrStarts xs.contains 65536 : Int) := by
  have hne : xs ≠ [] := by intro h; have := hw.pos; simp [h] at this
  obtain ⟨k, hk, hn⟩ := nr_arr_loop xs hne hw.sorted hw.bound
  unfold arrNumberOfRuns
  split
  · next h => have := hw.pos; omega
  · next h =>
    have : k = 0 := by
      cases xs with
      | nil => simp at h
      | cons a t =>
        cases t with
        | nil => simpa [arrRunsLoop] using hk.symm
        | cons b t' => simp at h
    rw [hn, this]; rfl
  · rw [hk, hn]; simp

/-! ### bitmap container -/

theorem nr_word_inner (w : BitVec 64) :
    popcount (~~~w &&& (w <<< 1)) = cnt (fun j => w.getLsbD j && !w.getLsbD (j + 1)) 63 := by
  rw [popcount_eq_cnt]
  apply cnt_shift (s := 1) (l := 63) (p := fun j => w.getLsbD j && !w.getLsbD (j + 1))
  intro j hj
  simp only [BitVec.getLsbD_and, BitVec.getLsbD_not, BitVec.getLsbD_shiftLeft]
  by_cases h0 : j = 0
  · subst h0; simp
  · have e : j - 1 + 1 = j := by omega
    simp only [e]
    simp [show j < 64 by omega, show ¬ j < 1 by omega, show 1 ≤ j by omega, Bool.and_comm]

theorem nr_word_carry (w nw : BitVec 64) :
    ((w >>> 63) &&& ~~~nw).toNat = (w.getLsbD 63 && !nw.getLsbD 0).toNat := by
  have : (w >>> 63) &&& ~~~nw = if (w.getLsbD 63 && !nw.getLsbD 0) = true then 1#64 else 0#64 := by
    apply BitVec.eq_of_getLsbD_eq
    intro i hi
    simp only [BitVec.getLsbD_and, BitVec.getLsbD_not, BitVec.getLsbD_ushiftRight]
    by_cases h0 : i = 0
    · subst h0
      cases w.getLsbD 63 <;> cases nw.getLsbD 0 <;> simp
    · have : w.getLsbD (63 + i) = false := BitVec.getLsbD_of_ge _ _ (by omega)
      rw [this]
      split <;> simp [h0]
  rw [this]
  cases (w.getLsbD 63 && !nw.getLsbD 0) <;> rfl

theorem nr_word_last (w : BitVec 64) :
    (if w &&& 0x8000000000000000#64 ≠ 0#64 then 1 else 0 : Nat) = (w.getLsbD 63).toNat := by
  have e : (0x8000000000000000#64) = 1#64 <<< 63 := by decide
  have := and_one_shift_ne_zero w 63 (by omega)
  rw [e]
  cases h : w.getLsbD 63
  · rw [if_neg (fun hc => by rw [this, h] at hc; exact Bool.noConfusion hc)]; rfl
  · rw [if_pos (this.mpr h)]; rfl

theorem nr_ends_word (ws : List (BitVec 64)) (k : Nat) :
    nrEnds (testBit ws) (64 * (k + 1)) = nrEnds (testBit ws) (64 * k)
      + cnt (fun j => (word ws k).getLsbD j && !(word ws k).getLsbD (j + 1)) 63
      + ((word ws k).getLsbD 63 && !(word ws (k + 1)).getLsbD 0).toNat := by
  unfold nrEnds
  rw [show 64 * (k + 1) = 64 * k + (63 + 1) by omega, cnt_add, nr_cnt_succ]
  have h1 : cnt (fun i => nrEnd (testBit ws) (64 * k + i)) 63
      = cnt (fun j => (word ws k).getLsbD j && !(word ws k).getLsbD (j + 1)) 63 := by
    apply cnt_congr
    intro j hj
    simp only [nrEnd]
    rw [testBit_word ws k j (by omega), Nat.add_assoc, testBit_word ws k (j + 1) (by omega)]
  have h2 : nrEnd (testBit ws) (64 * k + 63) = ((word ws k).getLsbD 63 && !(word ws (k + 1)).getLsbD 0) := by
    simp only [nrEnd]
    rw [testBit_word ws k 63 (by omega), show 64 * k + 63 + 1 = 64 * (k + 1) + 0 by omega,
      testBit_word ws (k + 1) 0 (by omega)]
  rw [h1, h2]; omega

theorem nr_bmp_loop (ws : List (BitVec 64)) : ∀ (t : List (BitVec 64)) (k : Nat), ws.drop k = t →
    nrEnds (testBit ws) (64 * k) + bmpRunsLoop t = nrEnds (testBit ws) (64 * ws.length) := by
  intro t
  induction t with
  | nil =>
    intro k hd
    have hk : ws.length ≤ k := by simpa using hd
    simp only [bmpRunsLoop, Nat.add_zero]
    exact cnt_eq_of_none (nrEnd (testBit ws)) (by omega)
      (fun u h1 h2 => by simp [nrEnd, testBit_of_ge ws u h1])
  | cons w t ih =>
    intro k hd
    have hw : word ws k = w := by
      unfold word
      have := congrArg (fun l => l.getD 0 0#64) hd
      simpa using this
    have ht : ws.drop (k + 1) = t := by
      have := congrArg (fun l => l.drop 1) hd
      simpa using this
    have hi := ih (k + 1) ht
    rw [nr_ends_word, hw] at hi
    cases t with
    | nil =>
      have hk : ws.length ≤ k + 1 := by simpa using ht
      have hz : word ws (k + 1) = 0#64 := by
        unfold word; simp [List.getD_eq_getElem?_getD, List.getElem?_eq_none hk]
      rw [hz] at hi
      simp only [bmpRunsLoop, nr_word_inner, nr_word_last] at hi ⊢
      simp only [BitVec.getLsbD_zero, Bool.not_false, Bool.and_true] at hi
      omega
    | cons nw t' =>
      have hnw : word ws (k + 1) = nw := by
        unfold word
        have := congrArg (fun l => l.getD 0 0#64) ht
        simpa using this
      rw [hnw] at hi
      simp only [bmpRunsLoop, nr_word_inner, nr_word_carry] at hi ⊢
      omega

theorem nr_bmp {ws : List (BitVec 64)} (hl : ws.length = 1024) :
    bmpRunsLoop ws = nrStarts (testBit ws) 65536 := by
  have := nr_bmp_loop ws ws 0 rfl
  rw [hl] at this
  simp only [nrEnds, Nat.mul_zero, cnt_zero, Nat.zero_add] at this
  rw [this, nr_starts_eq_ends _ _ (testBit_of_ge ws _ (by omega))]
  rfl

/-! ### the theorem -/

theorem numRuns_eq_starts (c : Cont) (hc : c.wf = true) : c.numberOfRunsQ = (nrStarts c.has 65536 : Int) := by
  cases c with
  | arr xs => exact nr_arr (wf_arr hc)
  | bmp cd ws =>
    obtain ⟨hl, hcd, hgt⟩ := wf_bmp hc
    have e : (Cont.bmp cd ws).has = testBit ws := by funext x; rfl
    simp only [Cont.numberOfRunsQ, bmpNumberOfRuns]
    rw [if_neg (by omega), nr_bmp hl, e]
  | run rs =>
    have hw := wf_run hc
    have e : (Cont.run rs).has = inRuns rs := by funext x; rfl
    simp only [Cont.numberOfRunsQ]
    rw [e, nr_run_starts rs hw.sep hw.bound]

theorem numberOfRunsQ_spec (c : Cont) (hc : c.wf = true) :
    c.numberOfRunsQ = (((c.toBSet 0).length / 2 : Nat) : Int) := by
  rw [numRuns_eq_starts c hc, nr_toBSet_starts hc]

end RModel.Impl
