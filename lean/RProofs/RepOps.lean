import RProofs.ContOps
import RModel.Impl.RepOps
/-!
Bitmap-level (roaringArray) L2 theorems for the four static operations `And`, `Or`, `Xor`, `AndNot` (`Rep.and2` …).
Core Lean only; no `native_decide`, `bv_decide`, axioms.
-/
namespace RModel.Impl
open RModel RModel.BSet RModel.Driver ContOps RepOps

/-! ### the abstraction of one container at an arbitrary base -/

theorem mem_toBSet_base (c : Cont) (base x : Nat) :
    mem (c.toBSet base) x = (decide (base ≤ x) && c.has (x - base)) := by
  cases c with
  | arr v =>
    rw [mem_toBSet_arr]
    simp only [Cont.has]
    induction v with
    | nil => simp
    | cons a t ih =>
      rw [List.any_cons, ih, List.contains_cons]
      by_cases h : base ≤ x
      · have : (x == base + a) = (x - base == a) := by
          rw [nat_beq_decide, nat_beq_decide]; apply decide_eq_decide.mpr; omega
        simp [h, this]
      · have : (x == base + a) = false := by
          rw [nat_beq_decide]; apply decide_eq_false; omega
        simp [h, this]
  | bmp c ws =>
    simp only [Cont.toBSet, mem_boundsOfBits, flatMap_wordBits_getD, Cont.has]
    simp
  | run rs =>
    rw [mem_toBSet_run]
    simp only [Cont.has, inRuns]
    induction rs with
    | nil => simp
    | cons p t ih =>
      rw [List.any_cons, ih, List.any_cons]
      obtain ⟨s, l⟩ := p
      by_cases h : base ≤ x
      · have h1 : decide (base + s ≤ x) = decide (s ≤ x - base) := by apply decide_eq_decide.mpr; omega
        have h2 : decide (x ≤ base + s + l) = decide (x - base ≤ s + l) := by apply decide_eq_decide.mpr; omega
        simp [h, h1, h2]
      · have h1 : decide (base + s ≤ x) = false := by apply decide_eq_false; omega
        simp [h, h1]

theorem sinc_toBSet_base (c : Cont) (base : Nat) : SInc (c.toBSet base) := by
  cases c with
  | arr v => exact sinc_toBSet_arr base v
  | bmp c ws => exact sinc_boundsOfBits _ _ _
  | run rs => exact sinc_toBSet_run base rs

/-! ### membership in the abstraction of a representation -/

theorem sinc_rep (r : Rep) : SInc r.toBSet := by
  unfold Rep.toBSet
  exact sinc_unionAll _ (by intro s hs; simp at hs; obtain ⟨a, _, rfl⟩ := hs; exact sinc_toBSet_base _ _)

/-- no hypotheses: a value is in the set iff some slot covers it -/
theorem mem_rep_any (r : Rep) (x : Nat) :
    mem r.toBSet x = r.slots.any (fun s => decide (s.key * 65536 ≤ x) && s.c.has (x - s.key * 65536)) := by
  unfold Rep.toBSet
  rw [mem_unionAll _ (by intro s hs; simp at hs; obtain ⟨a, _, rfl⟩ := hs; exact sinc_toBSet_base _ _)]
  simp only [List.any_map]
  congr 1
  funext s
  simp [Function.comp, mem_toBSet_base]

/-- a container that only reports values of one chunk -/
def Cont.Bounded (c : Cont) : Prop := ∀ y, c.has y = true → y < 65536

theorem bounded_of_wf {c : Cont} (h : c.wf = true) : c.Bounded := fun _ hy => has_lt h hy

/-- membership chunk by chunk -/
def slotsHas (l : List Slot) (x : Nat) : Bool := l.any (fun s => s.key == x / 65536 && s.c.has (x % 65536))

theorem slot_cover {s : Slot} (hb : s.c.Bounded) (x : Nat) :
    (decide (s.key * 65536 ≤ x) && s.c.has (x - s.key * 65536)) = (s.key == x / 65536 && s.c.has (x % 65536)) := by
  by_cases hk : s.key = x / 65536
  · have h1 : s.key * 65536 ≤ x := by rw [hk]; omega
    have h2 : x - s.key * 65536 = x % 65536 := by rw [hk]; omega
    rw [h2, decide_eq_true h1, Bool.true_and]
    simp [hk]
  · have : (s.key == x / 65536) = false := by simpa using hk
    rw [this, Bool.false_and]
    by_cases h1 : s.key * 65536 ≤ x
    · simp only [h1, decide_true, Bool.true_and]
      cases hh : s.c.has (x - s.key * 65536) with
      | false => rfl
      | true =>
        exfalso
        have := hb _ hh
        omega
    · simp [h1]

theorem mem_rep_slots (r : Rep) (hb : ∀ s ∈ r.slots, s.c.Bounded) (x : Nat) : mem r.toBSet x = slotsHas r.slots x := by
  rw [mem_rep_any]
  unfold slotsHas
  generalize r.slots = l at hb
  induction l with
  | nil => rfl
  | cons s t ih =>
    rw [List.any_cons, List.any_cons, ih (fun s hs => hb s (by simp [hs])), slot_cover (hb s (by simp))]

/-! ### `isEmpty()` on kernel results: the cached cardinality of a bitmap-typed result is the true one -/

/-- the cached cardinality of a bitmap container is the population count of its words -/
def Cont.CardOk (c : Cont) : Prop := ∀ k ws, c = .bmp k ws → k = (wordsCard ws : Int)

theorem cardOk_arr (vs : List Nat) : (Cont.arr vs).CardOk := fun _ _ h => by cases h
theorem cardOk_run (rs : List (Nat × Nat)) : (Cont.run rs).CardOk := fun _ _ h => by cases h
theorem cardOk_bmp {k : Int} {ws : List (BitVec 64)} (h : k = (wordsCard ws : Int)) : (Cont.bmp k ws).CardOk :=
  fun _ _ e => by cases e; exact h

theorem cardOk_of_wf {c : Cont} (h : c.wf = true) : c.CardOk := by
  cases c with
  | bmp k ws => exact cardOk_bmp (wf_bmp h).2.1
  | arr _ => exact cardOk_arr _
  | run _ => exact cardOk_run _

theorem cardOk_ofWordsAB (ws : List (BitVec 64)) : (ofWordsAB ws).CardOk := by
  simp only [ofWordsAB]
  split
  · exact cardOk_bmp rfl
  · exact cardOk_arr _

theorem cardOk_ofWordsXor (ws : List (BitVec 64)) : (ofWordsXor ws).CardOk := by
  simp only [ofWordsXor, fullRun]
  split
  · split
    · exact cardOk_run _
    · exact cardOk_bmp rfl
  · exact cardOk_arr _

theorem cardOk_ofWordsArrArr (ws : List (BitVec 64)) : (ofWordsArrArr ws).CardOk := by
  simp only [ofWordsArrArr]
  split
  · exact cardOk_arr _
  · exact cardOk_bmp rfl

theorem cardOk_bmpXorArr {c : Int} {ws : List (BitVec 64)} (hw : (Cont.bmp c ws).wf = true) {ys : List Nat} (hys : ArrWf ys) :
    (bmpXorArr c ws ys).CardOk := by
  obtain ⟨hl, hc, hgt⟩ := wf_bmp hw
  have := card_bmpXorArr ws ys hl hys
  simp only [bmpXorArr]
  split
  · exact cardOk_arr _
  · exact cardOk_bmp (by omega)

theorem cardOk_bmpAndNotArr {c : Int} {ws : List (BitVec 64)} (hw : (Cont.bmp c ws).wf = true) {ys : List Nat} (hys : ArrWf ys) :
    (bmpAndNotArr c ws ys).CardOk := by
  obtain ⟨hl, hc, hgt⟩ := wf_bmp hw
  have := card_bmpAndNotArr ws ys (nodup_of_sorted hys.sorted)
  simp only [bmpAndNotArr]
  split
  · exact cardOk_arr _
  · exact cardOk_bmp (by omega)

theorem cardOk_runToEfficient (rs : List (Nat × Nat)) (hs : RunSep rs) (hb : RunBound 65535 rs) :
    (runToEfficient rs).CardOk := by
  simp only [runToEfficient, runToEfficientCard]
  split
  · exact cardOk_run _
  · split
    · exact cardOk_arr _
    · exact cardOk_bmp (by rw [wordsCard_wordsOfRuns rs hs hb])

theorem cardOk_and2 (a b : Cont) (ha : a.wf = true) (hb : b.wf = true) : (a.and2 b).CardOk := by
  cases a with
  | arr xs =>
    cases b with
    | arr ys => exact cardOk_arr _
    | bmp c ws => exact cardOk_arr _
    | run rs =>
      simp only [Cont.and2]
      split
      · exact cardOk_arr _
      · split <;> exact cardOk_arr _
  | bmp c ws =>
    cases b with
    | arr ys => exact cardOk_arr _
    | bmp c2 ws2 => exact cardOk_ofWordsAB _
    | run rs =>
      simp only [Cont.and2]
      split
      · exact cardOk_of_wf ha
      · exact cardOk_ofWordsAB _
  | run rs =>
    have hrs := wf_run ha
    simp only [Cont.and2]
    split
    · exact cardOk_of_wf hb
    · cases b with
      | arr ys => simp only []; split <;> exact cardOk_arr _
      | bmp c2 ws2 => exact cardOk_ofWordsAB _
      | run rs2 =>
        have hrs2 := wf_run hb
        exact cardOk_runToEfficient _ (sep_runInter _ _ hrs.sep hrs2.sep) (bound_runInter 65535 _ _ hrs.bound)

theorem cardOk_xor2 (a b : Cont) (ha : a.wf = true) (hb : b.wf = true) : (a.xor2 b).CardOk := by
  cases a with
  | arr xs =>
    cases b with
    | arr ys =>
      simp only [Cont.xor2]
      split
      · exact cardOk_ofWordsArrArr _
      · exact cardOk_arr _
    | bmp c ws => exact cardOk_bmpXorArr hb (wf_arr ha)
    | run rs => simp only [Cont.xor2]; exact cardOk_ofWordsXor _
  | bmp c ws =>
    cases b with
    | arr ys => exact cardOk_bmpXorArr ha (wf_arr hb)
    | bmp c2 ws2 => simp only [Cont.xor2]; exact cardOk_ofWordsXor _
    | run rs => simp only [Cont.xor2]; exact cardOk_ofWordsXor _
  | run rs => simp only [Cont.xor2]; exact cardOk_ofWordsXor _

theorem cardOk_andNot2 (a b : Cont) (ha : a.wf = true) (hb : b.wf = true) : (a.andNot2 b).CardOk := by
  have hgen : (ofWordsAB (andNotW a.toBitmapWords b.toBitmapWords)).CardOk := cardOk_ofWordsAB _
  cases a with
  | arr xs =>
    cases b with
    | arr ys => exact cardOk_arr _
    | bmp c ws => exact cardOk_arr _
    | run rs => exact hgen
  | bmp c ws =>
    cases b with
    | arr ys => exact cardOk_bmpAndNotArr ha (wf_arr hb)
    | bmp c2 ws2 => exact hgen
    | run rs => exact hgen
  | run rs =>
    have hrs := wf_run ha
    cases b with
    | arr ys => exact hgen
    | bmp c2 ws2 => exact hgen
    | run rs2 =>
      have hrs2 := wf_run hb
      exact cardOk_runToEfficient _ (sep_runDiff _ _ hrs.sep hrs2.sep) (bound_runDiff 65535 _ _ hrs.bound)

/-- `isEmpty()` answers truthfully and a non-empty container is well-formed -/
def Cont.EmptyOrWf (c : Cont) : Prop := (c.isEmptyGo = true ∧ ∀ y, c.has y = false) ∨ (c.isEmptyGo = false ∧ c.wf = true)

theorem isEmptyGo_of_wf {c : Cont} (h : c.wf = true) : c.isEmptyGo = false := by
  cases c with
  | arr vs => have := (wf_arr h).pos; cases vs <;> simp_all [Cont.isEmptyGo]
  | bmp k ws => obtain ⟨_, hc, hgt⟩ := wf_bmp h; simp only [Cont.isEmptyGo]; apply beq_false_of_ne; omega
  | run rs => have := (wf_run h).ne; cases rs <;> simp_all [Cont.isEmptyGo]

theorem testBit_false_of_card0 (ws : List (BitVec 64)) (h : wordsCard ws = 0) (y : Nat) : testBit ws y = false := by
  cases ht : testBit ws y with
  | false => rfl
  | true =>
    have hm := (mem_valsOfWords ws y).mpr ht
    have hl := length_valsOfWords ws
    rw [h] at hl
    have : valsOfWords ws = [] := List.eq_nil_of_length_eq_zero hl
    rw [this] at hm
    cases hm

theorem emptyOrWf_of {c : Cont} (h : c.card = 0 ∨ c.wf = true) (hc : c.CardOk) : c.EmptyOrWf := by
  rcases h with h | h
  · left
    cases c with
    | arr vs =>
      simp only [Cont.card] at h
      have : vs = [] := List.eq_nil_of_length_eq_zero h
      subst this
      exact ⟨rfl, fun y => rfl⟩
    | bmp k ws =>
      have hc := hc k ws rfl
      have h0 : wordsCard ws = 0 := h
      refine ⟨?_, fun y => testBit_false_of_card0 ws h0 y⟩
      simp only [Cont.isEmptyGo, hc, h0]; rfl
    | run rs =>
      cases rs with
      | nil => exact ⟨rfl, fun y => rfl⟩
      | cons p t =>
        exfalso
        simp only [Cont.card, List.map_cons, List.sum_cons] at h
        omega
  · right; exact ⟨isEmptyGo_of_wf h, h⟩

theorem emptyOrWf_and2 (a b : Cont) (ha : a.wf = true) (hb : b.wf = true) : (a.and2 b).EmptyOrWf :=
  emptyOrWf_of (wf_and2 a b ha hb) (cardOk_and2 a b ha hb)
theorem emptyOrWf_xor2 (a b : Cont) (ha : a.wf = true) (hb : b.wf = true) : (a.xor2 b).EmptyOrWf :=
  emptyOrWf_of (wf_xor2 a b ha hb) (cardOk_xor2 a b ha hb)
theorem emptyOrWf_andNot2 (a b : Cont) (ha : a.wf = true) (hb : b.wf = true) : (a.andNot2 b).EmptyOrWf :=
  emptyOrWf_of (wf_andNot2 a b ha hb) (cardOk_andNot2 a b ha hb)

/-! ### well-formed slot lists -/

/-- `Rep.wf` as a proposition about the slot list -/
structure SlotsWf (l : List Slot) : Prop where
  sorted : l.Pairwise (fun s t => s.key < t.key)
  ok : ∀ s ∈ l, s.key < 65536 ∧ s.c.wf = true

theorem slotsWf_iff (r : Rep) : r.wf = true ↔ SlotsWf r.slots := by
  simp only [Rep.wf, Bool.and_eq_true, List.all_eq_true, decide_eq_true_eq]
  constructor
  · rintro ⟨h1, h2⟩
    exact ⟨List.pairwise_map.mp (pairwise_of_strictInc _ h1), h2⟩
  · rintro ⟨h1, h2⟩
    exact ⟨strictInc_of_pairwise _ (List.pairwise_map.mpr h1), h2⟩

theorem SlotsWf.nil : SlotsWf [] := ⟨List.Pairwise.nil, fun _ h => by cases h⟩

theorem SlotsWf.tail {s : Slot} {t : List Slot} (h : SlotsWf (s :: t)) : SlotsWf t :=
  ⟨(List.pairwise_cons.mp h.sorted).2, fun s' hs' => h.ok s' (by simp [hs'])⟩

theorem SlotsWf.head {s : Slot} {t : List Slot} (h : SlotsWf (s :: t)) : s.key < 65536 ∧ s.c.wf = true :=
  h.ok s (by simp)

theorem SlotsWf.head_lt {s : Slot} {t : List Slot} (h : SlotsWf (s :: t)) : ∀ s' ∈ t, s.key < s'.key :=
  (List.pairwise_cons.mp h.sorted).1

theorem SlotsWf.gt_of_lt_head {k : Nat} {s : Slot} {t : List Slot} (h : SlotsWf (s :: t)) (hk : k < s.key) :
    ∀ s' ∈ s :: t, k < s'.key := by
  intro s' hs'
  rcases List.mem_cons.mp hs' with rfl | h'
  · exact hk
  · have := h.head_lt s' h'; omega

theorem SlotsWf.cons {s : Slot} {t : List Slot} (hs : s.key < 65536 ∧ s.c.wf = true) (ht : SlotsWf t)
    (hlt : ∀ s' ∈ t, s.key < s'.key) : SlotsWf (s :: t) :=
  ⟨List.pairwise_cons.mpr ⟨hlt, ht.sorted⟩, fun s' hs' => by
    rcases List.mem_cons.mp hs' with rfl | h'
    · exact hs
    · exact ht.ok s' h'⟩

theorem SlotsWf.bounded {l : List Slot} (h : SlotsWf l) : ∀ s ∈ l, s.c.Bounded :=
  fun s hs => bounded_of_wf (h.ok s hs).2

/-! ### chunk-wise membership -/

theorem slotsHas_nil (x : Nat) : slotsHas [] x = false := rfl

theorem slotsHas_cons (s : Slot) (t : List Slot) (x : Nat) :
    slotsHas (s :: t) x = ((s.key == x / 65536 && s.c.has (x % 65536)) || slotsHas t x) := rfl

theorem slotsHas_gt {l : List Slot} {k : Nat} (h : ∀ s ∈ l, k < s.key) {x : Nat} (hx : x / 65536 ≤ k) :
    slotsHas l x = false := by
  induction l with
  | nil => rfl
  | cons s t ih =>
    rw [slotsHas_cons, ih (fun s' hs' => h s' (by simp [hs']))]
    have := h s (by simp)
    have : (s.key == x / 65536) = false := by
      rw [nat_beq_decide]; apply decide_eq_false; omega
    simp [this]

theorem copySlot_eq (s : Slot) : copySlot s = s := rfl

theorem map_copySlot (l : List Slot) : l.map copySlot = l := by
  induction l with
  | nil => rfl
  | cons s t ih => rw [List.map_cons, ih, copySlot_eq]

theorem slotsHas_keep (k : Nat) (c : Cont) (rest : List Slot) (x : Nat) (h : c.EmptyOrWf) :
    slotsHas (keep k c rest) x = ((k == x / 65536 && c.has (x % 65536)) || slotsHas rest x) := by
  unfold keep
  rcases h with ⟨he, hh⟩ | ⟨he, _⟩
  · simp [he, hh]
  · simp [he, slotsHas_cons]

/-- under well-formedness, `Rep.has` (look the chunk up, ask the container) is chunk-wise membership -/
theorem has_eq_slotsHas (r : Rep) (h : SlotsWf r.slots) (x : Nat) : r.has x = slotsHas r.slots x := by
  unfold Rep.has Rep.find
  generalize r.slots = l at h
  induction l with
  | nil => rfl
  | cons s t ih =>
    rw [slotsHas_cons, List.find?_cons]
    by_cases hk : s.key = x / 65536
    · have : (s.key == x / 65536) = true := by simp [hk]
      rw [this, slotsHas_gt h.head_lt (by omega)]
      simp
    · have : (s.key == x / 65536) = false := by simpa using hk
      rw [this]
      simpa using ih h.tail

/-- **`mem_rep`**: `x` is in the set a well-formed representation denotes iff the container stored under key
`x / 65536` exists and contains `x % 65536` -/
theorem mem_rep (r : Rep) (h : r.wf = true) (x : Nat) : mem r.toBSet x = r.has x := by
  have hw := (slotsWf_iff r).mp h
  rw [mem_rep_slots r hw.bounded, has_eq_slotsHas r hw]

/-! ### set semantics of the four walks, chunk-wise -/

theorem beq_false_of_ne' {a b : Nat} (h : a ≠ b) : (a == b) = false := by
  rw [nat_beq_decide]; exact decide_eq_false h

theorem beq_true_of_eq' {a b : Nat} (h : a = b) : (a == b) = true := by
  rw [nat_beq_decide]; exact decide_eq_true h

theorem has_orSlots (a b : List Slot) (ha : ∀ s ∈ a, s.c.wf = true) (hb : ∀ s ∈ b, s.c.wf = true) (x : Nat) :
    slotsHas (orSlots a b) x = (slotsHas a x || slotsHas b x) := by
  fun_induction orSlots a b with
  | case1 b => rw [map_copySlot, slotsHas_nil, Bool.false_or]
  | case2 a h => rw [map_copySlot, slotsHas_nil, Bool.or_false]
  | case3 sa ta sb tb hlt ih =>
    rw [copySlot_eq, slotsHas_cons, ih (fun s hs => ha s (by simp [hs])) hb, slotsHas_cons sa, Bool.or_assoc]
  | case4 sa ta sb tb hlt hlt2 ih =>
    rw [copySlot_eq, slotsHas_cons, ih ha (fun s hs => hb s (by simp [hs])), slotsHas_cons sb tb]
    cases (sb.key == x / 65536 && sb.c.has (x % 65536)) <;> cases slotsHas (sa :: ta) x <;> simp
  | case5 sa ta sb tb hlt hlt2 ih =>
    have hk : sb.key = sa.key := by omega
    rw [slotsHas_cons, ih (fun s hs => ha s (by simp [hs])) (fun s hs => hb s (by simp [hs])),
      slotsHas_cons sa, slotsHas_cons sb, hk]
    simp only [has_or2 _ _ (ha sa (by simp)) (hb sb (by simp))]
    cases (sa.key == x / 65536) <;> cases sa.c.has (x % 65536) <;> cases sb.c.has (x % 65536) <;>
      cases slotsHas ta x <;> cases slotsHas tb x <;> rfl

theorem has_xorSlots (a b : List Slot) (ha : SlotsWf a) (hb : SlotsWf b) (x : Nat) :
    slotsHas (xorSlots a b) x = (slotsHas a x != slotsHas b x) := by
  fun_induction xorSlots a b with
  | case1 b => rw [map_copySlot, slotsHas_nil]; simp
  | case2 a h => rw [map_copySlot, slotsHas_nil]; simp
  | case3 sa ta sb tb hlt ih =>
    rw [copySlot_eq, slotsHas_cons, ih ha.tail hb, slotsHas_cons sa]
    by_cases hk : sa.key = x / 65536
    · rw [slotsHas_gt (hb.gt_of_lt_head hlt) (by omega), slotsHas_gt ha.head_lt (by omega)]
      simp
    · rw [beq_false_of_ne' hk]; simp
  | case4 sa ta sb tb hlt hlt2 ih =>
    have hlt' : sb.key < sa.key := by omega
    rw [copySlot_eq, slotsHas_cons, ih ha hb.tail, slotsHas_cons sb tb]
    by_cases hk : sb.key = x / 65536
    · rw [slotsHas_gt (ha.gt_of_lt_head hlt') (by omega), slotsHas_gt hb.head_lt (by omega)]
      simp
    · rw [beq_false_of_ne' hk]; simp
  | case5 sa ta sb tb hlt hlt2 ih =>
    have hk : sb.key = sa.key := by omega
    rw [slotsHas_keep _ _ _ _ (emptyOrWf_xor2 _ _ ha.head.2 hb.head.2), ih ha.tail hb.tail,
      slotsHas_cons sa, slotsHas_cons sb, hk, has_xor2 _ _ ha.head.2 hb.head.2]
    by_cases hx : sa.key = x / 65536
    · rw [slotsHas_gt ha.head_lt (by omega), slotsHas_gt hb.head_lt (by omega), beq_true_of_eq' hx]
      simp
    · rw [beq_false_of_ne' hx]; simp

theorem has_andSlots (a b : List Slot) (ha : SlotsWf a) (hb : SlotsWf b) (x : Nat) :
    slotsHas (andSlots a b) x = (slotsHas a x && slotsHas b x) := by
  fun_induction andSlots a b with
  | case1 b => rw [slotsHas_nil, Bool.false_and]
  | case2 a h => rw [slotsHas_nil, Bool.and_false]
  | case3 sa ta sb tb hlt ih =>
    rw [ih ha.tail hb, slotsHas_cons sa]
    by_cases hk : sa.key = x / 65536
    · rw [slotsHas_gt (hb.gt_of_lt_head hlt) (by omega)]
      simp
    · rw [beq_false_of_ne' hk]; simp
  | case4 sa ta sb tb hlt hlt2 ih =>
    have hlt' : sb.key < sa.key := by omega
    rw [ih ha hb.tail, slotsHas_cons sb tb]
    by_cases hk : sb.key = x / 65536
    · rw [slotsHas_gt (ha.gt_of_lt_head hlt') (by omega)]
      simp
    · rw [beq_false_of_ne' hk]; simp
  | case5 sa ta sb tb hlt hlt2 ih =>
    have hk : sb.key = sa.key := by omega
    rw [slotsHas_keep _ _ _ _ (emptyOrWf_and2 _ _ ha.head.2 hb.head.2), ih ha.tail hb.tail,
      slotsHas_cons sa, slotsHas_cons sb, hk, has_and2 _ _ ha.head.2 hb.head.2]
    by_cases hx : sa.key = x / 65536
    · rw [slotsHas_gt ha.head_lt (by omega), slotsHas_gt hb.head_lt (by omega), beq_true_of_eq' hx]
      simp
    · rw [beq_false_of_ne' hx]; simp

theorem has_andNotSlots (a b : List Slot) (ha : SlotsWf a) (hb : SlotsWf b) (x : Nat) :
    slotsHas (andNotSlots a b) x = (slotsHas a x && !slotsHas b x) := by
  fun_induction andNotSlots a b with
  | case1 b => rw [slotsHas_nil, Bool.false_and]
  | case2 a h => rw [map_copySlot, slotsHas_nil]; simp
  | case3 sa ta sb tb hlt ih =>
    rw [copySlot_eq, slotsHas_cons, ih ha.tail hb, slotsHas_cons sa]
    by_cases hk : sa.key = x / 65536
    · rw [slotsHas_gt (hb.gt_of_lt_head hlt) (by omega), slotsHas_gt ha.head_lt (by omega)]
      simp
    · rw [beq_false_of_ne' hk]; simp
  | case4 sa ta sb tb hlt hlt2 ih =>
    have hlt' : sb.key < sa.key := by omega
    rw [ih ha hb.tail, slotsHas_cons sb tb]
    by_cases hk : sb.key = x / 65536
    · rw [slotsHas_gt (ha.gt_of_lt_head hlt') (by omega)]
      simp
    · rw [beq_false_of_ne' hk]; simp
  | case5 sa ta sb tb hlt hlt2 ih =>
    have hk : sb.key = sa.key := by omega
    rw [slotsHas_keep _ _ _ _ (emptyOrWf_andNot2 _ _ ha.head.2 hb.head.2), ih ha.tail hb.tail,
      slotsHas_cons sa, slotsHas_cons sb, hk, has_andNot2 _ _ ha.head.2 hb.head.2]
    by_cases hx : sa.key = x / 65536
    · rw [slotsHas_gt ha.head_lt (by omega), slotsHas_gt hb.head_lt (by omega), beq_true_of_eq' hx]
      simp
    · rw [beq_false_of_ne' hx]; simp

/-! ### the results are well-formed (property C09 at bitmap level) -/

theorem mem_keep {k : Nat} {c : Cont} {rest : List Slot} {s : Slot} (h : s ∈ keep k c rest) :
    s.key = k ∨ s ∈ rest := by
  unfold keep at h
  split at h
  · exact Or.inr h
  · rcases List.mem_cons.mp h with rfl | h'
    · exact Or.inl rfl
    · exact Or.inr h'

theorem gt_tail {k : Nat} {s : Slot} {t : List Slot} (h : ∀ s' ∈ s :: t, k < s'.key) : ∀ s' ∈ t, k < s'.key :=
  fun s' hs' => h s' (by simp [hs'])

theorem gt_orSlots (k : Nat) (a b : List Slot) (ha : ∀ s ∈ a, k < s.key) (hb : ∀ s ∈ b, k < s.key) :
    ∀ s ∈ orSlots a b, k < s.key := by
  fun_induction orSlots a b with
  | case1 b => rw [map_copySlot]; exact hb
  | case2 a h => rw [map_copySlot]; exact ha
  | case3 sa ta sb tb hlt ih =>
    intro s hs
    rcases List.mem_cons.mp hs with h | h'
    · rw [h]; exact ha sa (by simp)
    · exact ih (gt_tail ha) hb s h'
  | case4 sa ta sb tb hlt hlt2 ih =>
    intro s hs
    rcases List.mem_cons.mp hs with h | h'
    · rw [h]; exact hb sb (by simp)
    · exact ih ha (gt_tail hb) s h'
  | case5 sa ta sb tb hlt hlt2 ih =>
    intro s hs
    rcases List.mem_cons.mp hs with h | h'
    · rw [h]; exact ha sa (by simp)
    · exact ih (gt_tail ha) (gt_tail hb) s h'

theorem gt_xorSlots (k : Nat) (a b : List Slot) (ha : ∀ s ∈ a, k < s.key) (hb : ∀ s ∈ b, k < s.key) :
    ∀ s ∈ xorSlots a b, k < s.key := by
  fun_induction xorSlots a b with
  | case1 b => rw [map_copySlot]; exact hb
  | case2 a h => rw [map_copySlot]; exact ha
  | case3 sa ta sb tb hlt ih =>
    intro s hs
    rcases List.mem_cons.mp hs with h | h'
    · rw [h]; exact ha sa (by simp)
    · exact ih (gt_tail ha) hb s h'
  | case4 sa ta sb tb hlt hlt2 ih =>
    intro s hs
    rcases List.mem_cons.mp hs with h | h'
    · rw [h]; exact hb sb (by simp)
    · exact ih ha (gt_tail hb) s h'
  | case5 sa ta sb tb hlt hlt2 ih =>
    intro s hs
    rcases mem_keep hs with h' | h'
    · rw [h']; exact ha sa (by simp)
    · exact ih (gt_tail ha) (gt_tail hb) s h'

theorem gt_andSlots (k : Nat) (a b : List Slot) (ha : ∀ s ∈ a, k < s.key) :
    ∀ s ∈ andSlots a b, k < s.key := by
  fun_induction andSlots a b with
  | case1 b => intro s hs; cases hs
  | case2 a h => intro s hs; cases hs
  | case3 sa ta sb tb hlt ih => exact ih (gt_tail ha)
  | case4 sa ta sb tb hlt hlt2 ih => exact ih ha
  | case5 sa ta sb tb hlt hlt2 ih =>
    intro s hs
    rcases mem_keep hs with h' | h'
    · rw [h']; exact ha sa (by simp)
    · exact ih (gt_tail ha) s h'

theorem gt_andNotSlots (k : Nat) (a b : List Slot) (ha : ∀ s ∈ a, k < s.key) :
    ∀ s ∈ andNotSlots a b, k < s.key := by
  fun_induction andNotSlots a b with
  | case1 b => intro s hs; cases hs
  | case2 a h => rw [map_copySlot]; exact ha
  | case3 sa ta sb tb hlt ih =>
    intro s hs
    rcases List.mem_cons.mp hs with h | h'
    · rw [h]; exact ha sa (by simp)
    · exact ih (gt_tail ha) s h'
  | case4 sa ta sb tb hlt hlt2 ih => exact ih ha
  | case5 sa ta sb tb hlt hlt2 ih =>
    intro s hs
    rcases mem_keep hs with h' | h'
    · rw [h']; exact ha sa (by simp)
    · exact ih (gt_tail ha) s h'

theorem wf_keep {k : Nat} {c : Cont} {rest : List Slot} (hk : k < 65536) (hc : c.EmptyOrWf) (hr : SlotsWf rest)
    (hlt : ∀ s ∈ rest, k < s.key) : SlotsWf (keep k c rest) := by
  unfold keep
  rcases hc with ⟨he, _⟩ | ⟨he, hw⟩
  · simpa [he] using hr
  · simp only [he]
    exact SlotsWf.cons ⟨hk, hw⟩ hr hlt

/-- a well-formed container is not empty -/
theorem exists_has_of_wf {c : Cont} (h : c.wf = true) : ∃ y, c.has y = true := by
  cases c with
  | arr vs =>
    have hp := (wf_arr h).pos
    cases vs with
    | nil => simp at hp
    | cons v t => exact ⟨v, by simp [Cont.has]⟩
  | bmp k ws =>
    obtain ⟨_, _, hgt⟩ := wf_bmp h
    have hl := length_valsOfWords ws
    cases hv : valsOfWords ws with
    | nil => rw [hv] at hl; simp at hl; omega
    | cons v t =>
      exact ⟨v, (mem_valsOfWords ws v).mp (by rw [hv]; simp)⟩
  | run rs =>
    have hne := (wf_run h).ne
    cases rs with
    | nil => exact absurd rfl hne
    | cons p t => exact ⟨p.1, by simp [Cont.has, inRuns]⟩

theorem wf_or2_ne (a b : Cont) (ha : a.wf = true) (hb : b.wf = true) : (a.or2 b).wf = true := by
  rcases wf_or2 a b ha hb with h0 | h
  · exfalso
    obtain ⟨y, hy⟩ := exists_has_of_wf ha
    have hor := has_or2 a b ha hb y
    rw [hy, Bool.true_or] at hor
    -- a container of cardinality 0 has no members
    generalize a.or2 b = c at h0 hor
    cases c with
    | arr vs =>
      have : vs = [] := List.eq_nil_of_length_eq_zero h0
      subst this; simp [Cont.has] at hor
    | bmp k ws =>
      have := testBit_false_of_card0 ws h0 y
      simp [Cont.has, this] at hor
    | run rs =>
      cases rs with
      | nil => simp [Cont.has, inRuns] at hor
      | cons p t => simp only [Cont.card, List.map_cons, List.sum_cons] at h0; omega
  · exact h

theorem wf_orSlots (a b : List Slot) (ha : SlotsWf a) (hb : SlotsWf b) : SlotsWf (orSlots a b) := by
  fun_induction orSlots a b with
  | case1 b => rw [map_copySlot]; exact hb
  | case2 a h => rw [map_copySlot]; exact ha
  | case3 sa ta sb tb hlt ih =>
    exact SlotsWf.cons ha.head (ih ha.tail hb) (gt_orSlots _ _ _ ha.head_lt (hb.gt_of_lt_head hlt))
  | case4 sa ta sb tb hlt hlt2 ih =>
    have hlt' : sb.key < sa.key := by omega
    exact SlotsWf.cons hb.head (ih ha hb.tail) (gt_orSlots _ _ _ (ha.gt_of_lt_head hlt') hb.head_lt)
  | case5 sa ta sb tb hlt hlt2 ih =>
    have hk : sb.key = sa.key := by omega
    refine SlotsWf.cons ⟨ha.head.1, wf_or2_ne _ _ ha.head.2 hb.head.2⟩ (ih ha.tail hb.tail)
      (gt_orSlots _ _ _ ha.head_lt (fun s hs => by have := hb.head_lt s hs; simp only; omega))

theorem wf_xorSlots (a b : List Slot) (ha : SlotsWf a) (hb : SlotsWf b) : SlotsWf (xorSlots a b) := by
  fun_induction xorSlots a b with
  | case1 b => rw [map_copySlot]; exact hb
  | case2 a h => rw [map_copySlot]; exact ha
  | case3 sa ta sb tb hlt ih =>
    exact SlotsWf.cons ha.head (ih ha.tail hb) (gt_xorSlots _ _ _ ha.head_lt (hb.gt_of_lt_head hlt))
  | case4 sa ta sb tb hlt hlt2 ih =>
    have hlt' : sb.key < sa.key := by omega
    exact SlotsWf.cons hb.head (ih ha hb.tail) (gt_xorSlots _ _ _ (ha.gt_of_lt_head hlt') hb.head_lt)
  | case5 sa ta sb tb hlt hlt2 ih =>
    have hk : sb.key = sa.key := by omega
    exact wf_keep ha.head.1 (emptyOrWf_xor2 _ _ ha.head.2 hb.head.2) (ih ha.tail hb.tail)
      (gt_xorSlots _ _ _ ha.head_lt (fun s hs => by have := hb.head_lt s hs; omega))

theorem wf_andSlots (a b : List Slot) (ha : SlotsWf a) (hb : SlotsWf b) : SlotsWf (andSlots a b) := by
  fun_induction andSlots a b with
  | case1 b => exact SlotsWf.nil
  | case2 a h => exact SlotsWf.nil
  | case3 sa ta sb tb hlt ih => exact ih ha.tail hb
  | case4 sa ta sb tb hlt hlt2 ih => exact ih ha hb.tail
  | case5 sa ta sb tb hlt hlt2 ih =>
    exact wf_keep ha.head.1 (emptyOrWf_and2 _ _ ha.head.2 hb.head.2) (ih ha.tail hb.tail)
      (gt_andSlots _ _ _ ha.head_lt)

theorem wf_andNotSlots (a b : List Slot) (ha : SlotsWf a) (hb : SlotsWf b) : SlotsWf (andNotSlots a b) := by
  fun_induction andNotSlots a b with
  | case1 b => exact SlotsWf.nil
  | case2 a h => rw [map_copySlot]; exact ha
  | case3 sa ta sb tb hlt ih =>
    exact SlotsWf.cons ha.head (ih ha.tail hb) (gt_andNotSlots _ _ _ ha.head_lt)
  | case4 sa ta sb tb hlt hlt2 ih => exact ih ha hb.tail
  | case5 sa ta sb tb hlt hlt2 ih =>
    exact wf_keep ha.head.1 (emptyOrWf_andNot2 _ _ ha.head.2 hb.head.2) (ih ha.tail hb.tail)
      (gt_andNotSlots _ _ _ ha.head_lt)

/-- **C09 at bitmap level**: the static operations return well-formed bitmaps (keys strictly increasing and `< 65536`,
every container non-empty and well-formed) on well-formed operands -/
theorem Rep.wf_and2 (a b : Rep) (ha : a.wf = true) (hb : b.wf = true) : (Rep.and2 a b).wf = true :=
  (slotsWf_iff _).mpr (wf_andSlots _ _ ((slotsWf_iff a).mp ha) ((slotsWf_iff b).mp hb))
theorem Rep.wf_or2 (a b : Rep) (ha : a.wf = true) (hb : b.wf = true) : (Rep.or2 a b).wf = true :=
  (slotsWf_iff _).mpr (wf_orSlots _ _ ((slotsWf_iff a).mp ha) ((slotsWf_iff b).mp hb))
theorem Rep.wf_xor2 (a b : Rep) (ha : a.wf = true) (hb : b.wf = true) : (Rep.xor2 a b).wf = true :=
  (slotsWf_iff _).mpr (wf_xorSlots _ _ ((slotsWf_iff a).mp ha) ((slotsWf_iff b).mp hb))
theorem Rep.wf_andNot2 (a b : Rep) (ha : a.wf = true) (hb : b.wf = true) : (Rep.andNot2 a b).wf = true :=
  (slotsWf_iff _).mpr (wf_andNotSlots _ _ ((slotsWf_iff a).mp ha) ((slotsWf_iff b).mp hb))

/-! ### set semantics -/

theorem Rep.mem_and2 (a b : Rep) (ha : a.wf = true) (hb : b.wf = true) (x : Nat) :
    mem (Rep.and2 a b).toBSet x = (mem a.toBSet x && mem b.toBSet x) := by
  have hwa := (slotsWf_iff a).mp ha
  have hwb := (slotsWf_iff b).mp hb
  rw [mem_rep_slots _ (wf_andSlots _ _ hwa hwb).bounded, mem_rep_slots a hwa.bounded, mem_rep_slots b hwb.bounded]
  exact has_andSlots _ _ hwa hwb x

theorem Rep.mem_or2 (a b : Rep) (ha : a.wf = true) (hb : b.wf = true) (x : Nat) :
    mem (Rep.or2 a b).toBSet x = (mem a.toBSet x || mem b.toBSet x) := by
  have hwa := (slotsWf_iff a).mp ha
  have hwb := (slotsWf_iff b).mp hb
  rw [mem_rep_slots _ (wf_orSlots _ _ hwa hwb).bounded, mem_rep_slots a hwa.bounded, mem_rep_slots b hwb.bounded]
  exact has_orSlots _ _ (fun s hs => (hwa.ok s hs).2) (fun s hs => (hwb.ok s hs).2) x

theorem Rep.mem_xor2 (a b : Rep) (ha : a.wf = true) (hb : b.wf = true) (x : Nat) :
    mem (Rep.xor2 a b).toBSet x = (mem a.toBSet x != mem b.toBSet x) := by
  have hwa := (slotsWf_iff a).mp ha
  have hwb := (slotsWf_iff b).mp hb
  rw [mem_rep_slots _ (wf_xorSlots _ _ hwa hwb).bounded, mem_rep_slots a hwa.bounded, mem_rep_slots b hwb.bounded]
  exact has_xorSlots _ _ hwa hwb x

theorem Rep.mem_andNot2 (a b : Rep) (ha : a.wf = true) (hb : b.wf = true) (x : Nat) :
    mem (Rep.andNot2 a b).toBSet x = (mem a.toBSet x && !mem b.toBSet x) := by
  have hwa := (slotsWf_iff a).mp ha
  have hwb := (slotsWf_iff b).mp hb
  rw [mem_rep_slots _ (wf_andNotSlots _ _ hwa hwb).bounded, mem_rep_slots a hwa.bounded, mem_rep_slots b hwb.bounded]
  exact has_andNotSlots _ _ hwa hwb x

/-- `roaring.And` of two well-formed bitmaps denotes the intersection (equality of canonical boundary lists) -/
theorem Rep.toBSet_and2 (a b : Rep) (ha : a.wf = true) (hb : b.wf = true) :
    (Rep.and2 a b).toBSet = BSet.inter a.toBSet b.toBSet :=
  canon_ext_sinc _ _ (sinc_rep _) (sinc_combine _ _ _ _ _ (sinc_rep a) (sinc_rep b))
    (fun x => by rw [Rep.mem_and2 a b ha hb, mem_inter _ _ (sinc_rep a) (sinc_rep b)])

/-- `roaring.Or` of two well-formed bitmaps denotes the union -/
theorem Rep.toBSet_or2 (a b : Rep) (ha : a.wf = true) (hb : b.wf = true) :
    (Rep.or2 a b).toBSet = BSet.union a.toBSet b.toBSet :=
  canon_ext_sinc _ _ (sinc_rep _) (sinc_combine _ _ _ _ _ (sinc_rep a) (sinc_rep b))
    (fun x => by rw [Rep.mem_or2 a b ha hb, mem_union _ _ (sinc_rep a) (sinc_rep b)])

/-- `roaring.Xor` of two well-formed bitmaps denotes the symmetric difference -/
theorem Rep.toBSet_xor2 (a b : Rep) (ha : a.wf = true) (hb : b.wf = true) :
    (Rep.xor2 a b).toBSet = BSet.xor a.toBSet b.toBSet :=
  canon_ext_sinc _ _ (sinc_rep _) (sinc_combine _ _ _ _ _ (sinc_rep a) (sinc_rep b))
    (fun x => by rw [Rep.mem_xor2 a b ha hb, mem_xor _ _ (sinc_rep a) (sinc_rep b)])

/-- `roaring.AndNot` of two well-formed bitmaps denotes the difference -/
theorem Rep.toBSet_andNot2 (a b : Rep) (ha : a.wf = true) (hb : b.wf = true) :
    (Rep.andNot2 a b).toBSet = BSet.diff a.toBSet b.toBSet :=
  canon_ext_sinc _ _ (sinc_rep _) (sinc_combine _ _ _ _ _ (sinc_rep a) (sinc_rep b))
    (fun x => by rw [Rep.mem_andNot2 a b ha hb, mem_diff _ _ (sinc_rep a) (sinc_rep b)])

/-! ### the `x1 == x2` shortcut of `Xor` / `AndNot` agrees with the walk -/

theorem isEmptyGo_of_no_member {c : Cont} (hc : c.EmptyOrWf) (h : ∀ y, c.has y = false) : c.isEmptyGo = true := by
  rcases hc with ⟨he, _⟩ | ⟨_, hw⟩
  · exact he
  · obtain ⟨y, hy⟩ := exists_has_of_wf hw
    rw [h y] at hy; cases hy

theorem xorSlots_self (a : List Slot) (ha : SlotsWf a) : xorSlots a a = [] := by
  induction a with
  | nil => simp [xorSlots]
  | cons s t ih =>
    have hw := ha.head.2
    have he : (s.c.xor2 s.c).isEmptyGo = true :=
      isEmptyGo_of_no_member (emptyOrWf_xor2 _ _ hw hw) (fun y => by rw [has_xor2 _ _ hw hw]; simp)
    rw [xorSlots]
    simp [keep, he, ih ha.tail]

theorem andNotSlots_self (a : List Slot) (ha : SlotsWf a) : andNotSlots a a = [] := by
  induction a with
  | nil => simp [andNotSlots]
  | cons s t ih =>
    have hw := ha.head.2
    have he : (s.c.andNot2 s.c).isEmptyGo = true :=
      isEmptyGo_of_no_member (emptyOrWf_andNot2 _ _ hw hw) (fun y => by rw [has_andNot2 _ _ hw hw]; simp)
    rw [andNotSlots]
    simp [keep, he, ih ha.tail]

/-- `Xor(x, x)` returns `NewBitmap()` without walking; on a well-formed operand the walk gives the same representation -/
theorem Rep.xor2_self (a : Rep) (ha : a.wf = true) : Rep.xor2 a a = {} := by
  simp [Rep.xor2, xorSlots_self _ ((slotsWf_iff a).mp ha)]

theorem Rep.andNot2_self (a : Rep) (ha : a.wf = true) : Rep.andNot2 a a = {} := by
  simp [Rep.andNot2, andNotSlots_self _ ((slotsWf_iff a).mp ha)]

/-- the answer of a static operation never has copy-on-write switched on -/
theorem Rep.cow_ops (a b : Rep) :
    (Rep.and2 a b).cow = false ∧ (Rep.or2 a b).cow = false ∧ (Rep.xor2 a b).cow = false ∧ (Rep.andNot2 a b).cow = false :=
  ⟨rfl, rfl, rfl, rfl⟩

end RModel.Impl
