import RModel.Impl.Serial
/-!
Property C14 — the serialized size never exceeds the documented bound — as theorems about the L2
representation model: for every well-formed representation (`Rep.wf`, the invariant of property C09),
`serializedSize` (the mirror of `GetSerializedSizeInBytes`, tied to the Go bytes by the `ser` correspondence lines)
is bounded by the README formula and by the closed form of `BoundSerializedSizeInBytes`.
-/
namespace RModel.Impl

/-- the literal parameters of the format specification -/
def specParams : SerParams := { serialCookie := 12347, serialCookieNoRun := 12346, noOffsetThreshold := 4, arrayMax := 4096 }

/-- number of integers held by a representation -/
def Rep.card (r : Rep) : Nat := (r.slots.map (·.c.card)).sum

/-! ### helper lemmas -/

/-- a strictly increasing list of naturals, all `< m`, starting at `a`, fits between `a` and `m` -/
theorem strictInc_cons_length (t : List Nat) : ∀ (a m : Nat), strictInc (a :: t) = true →
    (∀ b ∈ a :: t, b < m) → a + (a :: t).length ≤ m := by
  induction t with
  | nil => intro a m _ hb; have := hb a (by simp); simp; omega
  | cons b t ih =>
    intro a m hs hb
    simp only [strictInc, Bool.and_eq_true, decide_eq_true_eq] at hs
    have := ih b m hs.2 (fun c hc => hb c (List.mem_cons_of_mem _ hc))
    simp only [List.length_cons] at this ⊢
    omega

/-- a strictly increasing list of naturals all `< m` has at most `m` elements -/
theorem strictInc_length_le (l : List Nat) (m : Nat) (hs : strictInc l = true) (hb : ∀ b ∈ l, b < m) :
    l.length ≤ m := by
  cases l with
  | nil => simp
  | cons a t => have := strictInc_cons_length t a m hs hb; omega

/-- per-container size facts for a well-formed container -/
theorem Cont.wf_size (c : Cont) (h : c.wf = true) :
    c.serSize ≤ 2 * c.card ∧ c.serSize ≤ 8224 ∧ 1 ≤ c.card := by
  cases c with
  | arr vals =>
    simp only [Cont.wf, Bool.and_eq_true, decide_eq_true_eq] at h
    simp only [Cont.serSize, Cont.card]
    omega
  | bmp card words =>
    simp only [Cont.wf, Bool.and_eq_true, decide_eq_true_eq, beq_iff_eq] at h
    simp only [Cont.serSize, Cont.card]
    omega
  | run runs =>
    simp only [Cont.wf, runMinimal, Bool.and_eq_true, decide_eq_true_eq] at h
    simp only [Cont.serSize, Cont.card]
    omega

theorem slots_size (ss : List Slot) (h : ∀ s ∈ ss, s.c.wf = true) :
    (ss.map (·.c.serSize)).sum ≤ 2 * (ss.map (·.c.card)).sum ∧
    (ss.map (·.c.serSize)).sum ≤ 8224 * ss.length ∧
    ss.length ≤ (ss.map (·.c.card)).sum := by
  induction ss with
  | nil => simp
  | cons s t ih =>
    have ht := ih (fun s' hs' => h s' (List.mem_cons_of_mem _ hs'))
    have hs := Cont.wf_size s.c (h s (by simp))
    simp only [List.map_cons, List.sum_cons, List.length_cons]
    omega

/-- everything the two bounds need, extracted from well-formedness -/
theorem wf_facts (r : Rep) (x : Nat) (hwf : r.wf = true) (hx : ∀ s ∈ r.slots, s.key * 65536 < x) :
    r.slots.length ≤ (x + 65535) / 65536 ∧ r.slots.length ≤ r.card ∧
    (r.slots.map (·.c.serSize)).sum ≤ 2 * r.card ∧
    (r.slots.map (·.c.serSize)).sum ≤ 8224 * r.slots.length := by
  simp only [Rep.wf, Bool.and_eq_true, List.all_eq_true, decide_eq_true_eq] at hwf
  obtain ⟨hinc, hall⟩ := hwf
  have hlen := strictInc_length_le (r.slots.map (·.key)) ((x + 65535) / 65536) hinc (by
    intro b hb
    simp only [List.mem_map] at hb
    obtain ⟨s, hs, rfl⟩ := hb
    have := hx s hs
    omega)
  simp only [List.length_map] at hlen
  have := slots_size r.slots (fun s hs => (hall s hs).2)
  simp only [Rep.card]
  omega

theorem headerSize_le (r : Rep) :
    r.headerSize specParams ≤ 8 + 8 * r.slots.length + (if r.slots.length < 4 then 0 else (r.slots.length + 7) / 8 - 4) := by
  have h0 : r.hasRun = true → 1 ≤ r.slots.length := by
    intro h
    cases hs : r.slots with
    | nil => simp [Rep.hasRun, hs] at h
    | cons a t => simp
  simp only [Rep.headerSize, specParams]
  cases hr : r.hasRun with
  | false => simp only [Bool.false_eq_true, if_false]; split <;> omega
  | true =>
    have := h0 hr
    simp only [if_true]
    by_cases hn : r.slots.length < 4
    · simp only [hn, if_true]; omega
    · simp only [hn, if_false]; omega

/-- README bound: `8 + 9 * ceil(x / 65536) + 2 * N` for a bitmap holding `N` integers all smaller than `x`
(`∀ slot, key * 65536 < x` is implied by "all values < x" because no container is empty). -/
theorem readme_bound (r : Rep) (x : Nat) (hwf : r.wf = true) (hx : ∀ s ∈ r.slots, s.key * 65536 < x) :
    r.serializedSize specParams ≤ 8 + 9 * ((x + 65535) / 65536) + 2 * r.card := by
  obtain ⟨h1, h2, h3, h4⟩ := wf_facts r x hwf hx
  have h5 := headerSize_le r
  simp only [Rep.serializedSize]
  split at h5 <;> omega

/-- closed form of the Go function `BoundSerializedSizeInBytes(N, x)` (proved equal to the regenerated
translation in `RProofs/Facts/Bits.lean`, theorem `boundSerializedSizeInBytes_spec`) -/
def boundClosedForm (n u : Nat) : Nat :=
  let c := min ((u + 65535) / 65536) n
  min (2 * n) (c * 8224) + (8 * c + 4) + max 4 ((c + 7) / 8)

theorem bound_function (r : Rep) (x : Nat) (hwf : r.wf = true) (hx : ∀ s ∈ r.slots, s.key * 65536 < x) :
    r.serializedSize specParams ≤ boundClosedForm r.card x := by
  obtain ⟨h1, h2, h3, h4⟩ := wf_facts r x hwf hx
  have h5 := headerSize_le r
  simp only [Rep.serializedSize, boundClosedForm]
  split at h5 <;> omega

/-- non-vacuity: a concrete well-formed three-container representation (array, run, array) meets the hypotheses -/
example : (⟨false, [⟨0, .arr [1, 5, 9], false⟩, ⟨3, .run [(10, 99)], false⟩, ⟨7, .arr [65535], true⟩]⟩ : Rep).wf = true := by
  decide


end RModel.Impl
