import RModel.Impl.Serial
import RProofs.Properties.C14
import RProofs.SerialLemmas
/-!
Property C05 — the portable serialization round-trips exactly, with exact byte accounting — as theorems about the
L2 serializer/deserializer model (`Impl/Serial.lean`, which mirrors `roaringArray.writeTo` / `readFrom`; the model
is tied to the Go bytes by the `ser` / `dec` correspondence lines, byte for byte).
-/
namespace RModel.Impl

/-- the representation a reader builds: same containers, every slot flagged iff the reader is zero-copy, cow off;
the cached cardinality of a bitmap container is re-read from the header -/
def Rep.asDecoded (r : Rep) (flag : Bool) : Rep :=
  { cow := false, slots := r.slots.map fun s => { s with flag := flag } }

/-- bytes written = `serializedSize` (what `GetSerializedSizeInBytes` and the `n` returned by `WriteTo` report) -/
theorem encode_length (r : Rep) (hwf : r.wf = true) :
    (r.encode specParams).length = r.serializedSize specParams := by
  have _ := hwf  -- not needed: the byte count is exact for every representation, well formed or not
  have h4 : ∀ l : List Slot, (l.map fun _ => 4).sum = 4 * l.length := by
    intro l; induction l <;> simp_all <;> omega
  have hp := payloads_length r.slots
  simp only [List.length_flatMap] at hp
  simp only [Rep.encode, Rep.serializedSize, Rep.headerSize, specParams]
  cases hr : r.hasRun <;> by_cases h : 4 ≤ r.slots.length <;>
    simp [h4, hp, h, Nat.not_lt.mpr, Nat.lt_of_not_le] <;> omega

/-- `decode (encode r ++ tail)` gives back exactly `r` and consumes exactly `(encode r).length` bytes:
round trip, exact consumption, and nothing after the stream is looked at. -/
theorem decode_encode (r : Rep) (hwf : r.wf = true) (flag : Bool) (tail : Bytes) :
    decode specParams flag (r.encode specParams ++ tail) = .ok (r.asDecoded flag, (r.encode specParams).length) := by
  obtain ⟨hn, hkeys, hcwf⟩ := wf_slots r hwf
  obtain ⟨off, hoff, henc⟩ := encode_eq r
  have hlen : (r.encode specParams ++ tail).length - tail.length = (r.encode specParams).length := by simp
  rw [decode_eq, ← hlen]
  generalize (r.encode specParams ++ tail).length = len
  rw [henc]
  cases hr : r.hasRun
  · -- no run container: cookie 12346, explicit size
    simp only [Bool.false_eq_true, if_false, List.append_assoc]
    rw [rd32_le32 12346 (by omega)]
    simp only [decodeHdr, specParams_serialCookie, specParams_serialCookieNoRun]
    rw [rd32_le32 _ (by omega)]
    simp only [Nat.reduceMod, Nat.reduceBEq, Bool.false_eq_true, if_false, beq_self_eq_true, if_true, Option.map_some]
    rw [decodeTail_encode flag len none r.slots off tail hn hkeys hcwf
      (fun j hj => by simp [runBitAt, hasRun_false_iff r hr]) (by simpa [hr] using hoff)]
    rfl
  · -- at least one run container: cookie 12347 + (n-1) << 16, run-flag bitmap
    have hpos : 1 ≤ r.slots.length := by
      cases hs : r.slots with
      | nil => simp [Rep.hasRun, hs] at hr
      | cons a t => simp
    have hc1 : (12347 + 65536 * ((r.slots.length - 1) % 65536)) % 65536 = 12347 := by omega
    have hc2 : (12347 + 65536 * ((r.slots.length - 1) % 65536)) / 65536 + 1 = r.slots.length := by omega
    have hfl : (runFlagBytes (r.slots.map (·.c.isRun))).length = (r.slots.length + 7) / 8 := by simp
    simp only [if_true, List.append_assoc]
    rw [rd32_le16_le16 12347 _ (by omega) (by omega)]
    simp only [decodeHdr, specParams_serialCookie, hc1, hc2, beq_self_eq_true, if_true]
    rw [takeN_append _ _ _ hfl]
    simp only [Option.map_some]
    rw [decodeTail_encode flag len (some (runFlagBytes (r.slots.map (·.c.isRun)))) r.slots off tail hn hkeys hcwf
      (fun j hj => by
        have := runFlag_bit (r.slots.map (·.c.isRun)) j (by simpa using hj)
        simpa [runBitAt] using this) (by simpa [hr] using hoff)]
    rfl

/-- the decoder is total: it never reaches an unchecked index (the `panic` outcome) on any input -/
theorem decode_no_panic (P : SerParams) (flag : Bool) (bs : Bytes) : decode P flag bs ≠ .panic := by
  rw [decode_eq]
  have := decodeTail_no_panic P flag bs.length
  repeat' split
  all_goals first | apply this | simp

/-- every proper prefix of a valid stream is rejected with an error (never accepted, never a panic) -/
theorem prefix_rejected (r : Rep) (hwf : r.wf = true) (flag : Bool) (k : Nat) (hk : k < (r.encode specParams).length) :
    decode specParams flag ((r.encode specParams).take k) = .err := by
  cases h : decode specParams flag ((r.encode specParams).take k) with
  | err => rfl
  | panic => exact absurd h (decode_no_panic _ _ _)
  | ok v =>
    exfalso
    obtain ⟨r', c⟩ := v
    -- a successful read of the prefix consumes at most `k` bytes ...
    have hle := decode_count_le h
    -- ... and stays the same read when the remaining bytes are appended
    have hext := decode_ext h ((r.encode specParams).drop k)
    rw [List.take_append_drop] at hext
    -- but the read of the whole stream consumes all of it
    have hfull := decode_encode r hwf flag []
    rw [List.append_nil, hext] at hfull
    simp only [Outcome.ok.injEq, Prod.mk.injEq] at hfull
    rw [List.length_take] at hle
    omega

/-- the round-tripped representation is again well formed -/
theorem roundtrip_wf (r : Rep) (hwf : r.wf = true) (flag : Bool) : (r.asDecoded flag).wf = true := by
  simpa [Rep.wf, Rep.asDecoded, List.map_map, List.all_map, Function.comp_def] using hwf

/-- non-vacuity: the hypotheses are met by a concrete array/run/array representation, and the conclusions of
`decode_encode` / `prefix_rejected` are observed on it by evaluation -/
example :
    let r : Rep := ⟨false, [⟨0, .arr [1, 5, 9], false⟩, ⟨3, .run [(10, 99)], false⟩, ⟨7, .arr [65535], true⟩]⟩
    r.wf = true ∧ (r.encode specParams).length = 31 ∧
      (decode specParams true (r.encode specParams ++ [7, 7]) == .ok (r.asDecoded true, 31)) = true ∧
      (decode specParams true ((r.encode specParams).take 30) == .err) = true := by
  decide

end RModel.Impl
