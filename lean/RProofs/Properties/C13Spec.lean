import RModel.Spec.FrozenSpec
import RProofs.Properties.C06
import RProofs.Properties.C13
/-!
Property C13, layout conformance: the bytes written by `FreezeTo` (model `Rep.freeze`, tied byte for byte to the Go
writer by the `frz` correspondence lines) are, under the independent reading of the CRoaring layout description
(`Spec/FrozenSpec.lean`), a conformant stream that encodes exactly the bitmap's elements: `frozenSpec_freeze`.
-/
namespace RModel.FrozenSpec
open RModel RModel.Impl

/-! ### the layout reading's accessors are those of the portable-format reading (independently written, same equations) -/

theorem u8_eq' (b : Bytes) (i : Nat) : u8 b i = FormatSpec.u8 b i := rfl
theorem u16_eq' (b : Bytes) (i : Nat) : u16 b i = FormatSpec.u16 b i := rfl

theorem words16_eq' (b : Bytes) (pos cnt : Nat) : words16 b pos cnt = FormatSpec.words16 b pos cnt := by
  induction cnt generalizing pos with
  | zero => rfl
  | succ n ih =>
    simp only [words16, FormatSpec.words16, ih, u16_eq']
    cases FormatSpec.u16 b pos <;> cases FormatSpec.words16 b (pos + 2) n <;> rfl

theorem bytes8_eq' (b : Bytes) (pos cnt : Nat) : bytes8 b pos cnt = FormatSpec.bytes8 b pos cnt := by
  induction cnt generalizing pos with
  | zero => rfl
  | succ n ih =>
    simp only [bytes8, FormatSpec.bytes8, ih, u8_eq']
    cases FormatSpec.u8 b pos <;> cases FormatSpec.bytes8 b (pos + 1) n <;> rfl

theorem rlePairs_eq (l : List Nat) : rlePairs l = pairs16 l := by
  fun_induction rlePairs l <;> simp_all [pairs16]

theorem ascending_eq (l : List Nat) : ascending l = strictInc l := by
  fun_induction ascending l <;> simp_all [strictInc]

theorem boundaries_eq (pos : Nat) (prev : Bool) (l : List Bool) : boundaries pos prev l = boundsOfBits pos prev l := by
  fun_induction boundaries pos prev l <;> simp_all [boundsOfBits]

theorem bitsOfByte_eq : bitsOfByte = FormatSpec.byteBits := rfl

theorem runsDisjoint_of_runsOk (runs : List (Nat × Nat)) (h : runsOk runs = true) : runsDisjoint runs = true := by
  fun_induction runsOk runs with
  | case1 s l => simpa [runsDisjoint] using h
  | case2 s l s' l' t ih =>
    simp only [Bool.and_eq_true, decide_eq_true_eq] at h
    simp only [runsDisjoint, Bool.and_eq_true, decide_eq_true_eq]
    exact ⟨by omega, ih h.2⟩
  | case3 => rfl

/-- reading the `j`-th of `n` consecutive 16-bit words -/
theorem words16_get (b : Bytes) : ∀ (n pos : Nat) (ws : List Nat), words16 b pos n = some ws →
    ∀ j (_ : j < n), ∃ h : j < ws.length, u16 b (pos + 2 * j) = some ws[j]
  | 0, _, _, _, j, _ => by omega
  | n + 1, pos, ws, h, j, _ => by
    simp only [words16] at h
    cases h1 : u16 b pos with
    | none => simp [h1] at h
    | some x =>
      cases h2 : words16 b (pos + 2) n with
      | none => simp [h1, h2] at h
      | some xs =>
        simp only [h1, h2, Option.some.injEq] at h
        subst h
        cases j with
        | zero => exact ⟨by simp, by simpa using h1⟩
        | succ j =>
          obtain ⟨hl, hu⟩ := words16_get b n (pos + 2) xs h2 j (by omega)
          refine ⟨by simp; omega, ?_⟩
          rw [show pos + 2 * (j + 1) = pos + 2 + 2 * j by omega, hu]; simp

/-- the `j`-th 16-bit record of a table written as `l.flatMap (le16 ∘ f)` -/
theorem u16_table {α} (b : Bytes) (f : α → Nat) (l : List α) (hf : ∀ a ∈ l, f a < 65536) (off : Nat) (t : List UInt8)
    (hd : b.toList.drop off = l.flatMap (fun a => le16 (f a)) ++ t) (j : Nat) (hj : j < l.length) :
    u16 b (off + 2 * j) = some (f l[j]) := by
  have hl : (l.flatMap fun a => le16 (f a)).length = 2 * l.length :=
    flatMap_length_const (fun a => le16 (f a)) 2 (fun _ => rfl) l
  have hw : words16 b off l.length = some (l.map f) := by
    rw [words16_eq', FormatSpec.words16_eq, hd, takeN_append _ _ _ hl]
    have := bytesTo16s_le16 (l.map f) (by simpa using hf)
    simp only [List.flatMap_map] at this
    simp [this]
  obtain ⟨_, hu⟩ := words16_get b l.length off _ hw j hj
  simpa using hu

/-- what the three tables hold for the containers `rest` stored from index `i` on -/
def specTableOk (b : Bytes) (tA cA kA : Nat) (i : Nat) (rest : List Slot) : Prop :=
  ∀ j (h : j < rest.length),
    u8 b (tA + (i + j)) = some (rest[j].c.frozenType Driver.frozenParams) ∧
    u16 b (cA + 2 * (i + j)) = some rest[j].c.frozenCount ∧
    u16 b (kA + 2 * (i + j)) = some rest[j].key

theorem specTableOk_tail {b : Bytes} {tA cA kA i : Nat} {s : Slot} {rest : List Slot}
    (h : specTableOk b tA cA kA i (s :: rest)) : specTableOk b tA cA kA (i + 1) rest := by
  intro j hj
  have := h (j + 1) (by simp; omega)
  simpa [Nat.add_assoc, Nat.add_comm 1 j] using this

theorem arenaSizes_freeze (b : Bytes) (tA cA kA : Nat) (rest : List Slot) :
    ∀ (i : Nat) (t : Tally), specTableOk b tA cA kA i rest → (∀ s ∈ rest, s.c.wf = true) →
      arenaSizes b tA cA i rest.length t.nBitmap t.nRunEl t.nArrayEl =
        some ((tallyAdd t rest).nBitmap, (tallyAdd t rest).nRunEl, (tallyAdd t rest).nArrayEl) := by
  induction rest with
  | nil => intro i t _ _; rfl
  | cons s rest ih =>
    intro i t htab hwf
    obtain ⟨h1, h2, _⟩ := htab 0 (by simp)
    simp only [Nat.add_zero, List.getElem_cons_zero] at h1 h2
    have hswf := hwf s (by simp)
    have hrec := fun t' => ih (i + 1) t' (specTableOk_tail htab) (fun s hs => hwf s (List.mem_cons_of_mem _ hs))
    simp only [List.length_cons, arenaSizes, h1, h2, tallyAdd, slotTally]
    cases hc : s.c with
    | arr vals =>
      rw [hc] at hswf
      simp only [Cont.wf, Bool.and_eq_true, decide_eq_true_eq] at hswf
      have hcnt : t.nArrayEl + (((vals.length : Int) - 1) % 65536).toNat + 1 = t.nArrayEl + vals.length := by omega
      have := hrec { t with nArray := t.nArray + 1, nArrayEl := t.nArrayEl + vals.length }
      simp only [Cont.frozenType, Cont.frozenCount, hcnt, fp_typeArray]
      simpa using this
    | bmp card ws =>
      have := hrec { t with nBitmap := t.nBitmap + 1 }
      simp only [Cont.frozenType, fp_typeBitmap]
      simpa using this
    | run runs =>
      rw [hc] at hswf
      simp only [Cont.wf, Bool.and_eq_true, decide_eq_true_eq, runMinimal] at hswf
      have hcnt : runs.length % 65536 = runs.length := by omega
      have := hrec { t with nRun := t.nRun + 1, nRunEl := t.nRunEl + runs.length }
      simp only [Cont.frozenType, Cont.frozenCount, hcnt, fp_typeRun]
      simpa using this

theorem containerSets_freeze (b : Bytes) (tA cA kA : Nat) (rest : List Slot) :
    ∀ (i : Nat) (prevKey : Option Nat) (bAt rAt aAt : Nat) (X1 X2 X3 : List UInt8),
      specTableOk b tA cA kA i rest → (∀ s ∈ rest, s.c.wf = true) →
      strictInc (rest.map (·.key)) = true → (∀ s, rest.head? = some s → keyAfter prevKey s.key = true) →
      b.toList.drop bAt = rest.flatMap (slotBits Driver.frozenParams) ++ X1 →
      b.toList.drop rAt = rest.flatMap slotRuns ++ X2 →
      b.toList.drop aAt = rest.flatMap slotArrs ++ X3 →
      containerSets b tA cA kA i rest.length prevKey bAt rAt aAt =
        some (rest.map fun s => s.c.toBSet (s.key * 65536)) := by
  induction rest with
  | nil => intros; rfl
  | cons s rest ih =>
    intro i prevKey bAt rAt aAt X1 X2 X3 htab hwf hinc hprev dB dR dA
    obtain ⟨h1, h2, h3⟩ := htab 0 (by simp)
    simp only [Nat.add_zero, List.getElem_cons_zero] at h1 h2 h3
    have hswf := hwf s (by simp)
    have hwf' : ∀ s ∈ rest, s.c.wf = true := fun s hs => hwf s (List.mem_cons_of_mem _ hs)
    have hk := hprev s rfl
    have hinc' : strictInc (rest.map (·.key)) = true := by
      cases rest with
      | nil => rfl
      | cons s2 r2 => simp only [List.map_cons, strictInc, Bool.and_eq_true] at hinc; exact hinc.2
    have hprev' : ∀ s2, rest.head? = some s2 → keyAfter (some s.key) s2.key = true := by
      intro s2 hs2
      cases rest with
      | nil => simp at hs2
      | cons s3 r3 =>
        simp only [List.head?_cons, Option.some.injEq] at hs2; subst hs2
        simp only [List.map_cons, strictInc, Bool.and_eq_true] at hinc
        simpa [keyAfter] using hinc.1
    simp only [List.flatMap_cons, List.append_assoc] at dB dR dA
    simp only [List.length_cons, containerSets, h1, h2, h3, hk, Bool.not_true, Bool.false_eq_true, if_false, List.map_cons]
    cases hc : s.c with
    | arr vals =>
      rw [hc] at hswf
      simp only [Cont.wf, Bool.and_eq_true, decide_eq_true_eq, List.all_eq_true] at hswf
      obtain ⟨⟨⟨hv0, hv1⟩, hvinc⟩, hvlt⟩ := hswf
      have hsz : (((vals.length : Int) - 1) % 65536).toNat + 1 = vals.length := by omega
      have hl : (vals.flatMap le16).length = 2 * vals.length := flatMap_length_const le16 2 le16_length vals
      simp only [slotBits, slotRuns, slotArrs, hc, List.nil_append] at dB dR dA
      have hw : words16 b aAt vals.length = some vals := by
        rw [words16_eq', FormatSpec.words16_eq, dA, takeN_append _ _ _ hl]
        simp [bytesTo16s_le16 vals hvlt]
      have hrec := ih (i + 1) (some s.key) bAt rAt (aAt + 2 * vals.length) X1 X2 X3 (specTableOk_tail htab) hwf' hinc' hprev'
        dB dR (by rw [← hl]; exact FormatSpec.drop_of_append dA)
      simp only [Cont.frozenType, Cont.frozenCount, fp_typeArray, hsz, hw, ascending_eq, hvinc, hrec]
      simp [Cont.toBSet, BSet.single]
    | bmp card ws =>
      have hsb := slotBits_wf s hswf
      rw [hc] at hswf
      simp only [Cont.wf, Bool.and_eq_true, decide_eq_true_eq, beq_iff_eq] at hswf
      have hpc := popcount_sum_le ws
      have hcard : ((card - 1) % 65536).toNat + 1 = (ws.map popcount).sum := by omega
      have hlw : (ws.flatMap fun w => le64 w.toNat).length = 8192 := by
        rw [flatMap_length_const (fun w : BitVec 64 => le64 w.toNat) 8 (fun _ => rfl) ws]; omega
      simp only [hc] at hsb
      simp only [hsb, slotRuns, slotArrs, hc, List.nil_append] at dB dR dA
      have hbs : bitset b bAt (s.key * 65536) =
          some (boundsOfBits (s.key * 65536) false (ws.flatMap wordBits), (ws.map popcount).sum) := by
        simp only [bitset, bytes8_eq', FormatSpec.bytes8_eq, dB, takeN_append _ _ _ hlw, Option.map_some, bitsOfByte_eq,
          FormatSpec.words_bits, FormatSpec.wordsBits_count, boundaries_eq]
      have hrec := ih (i + 1) (some s.key) (bAt + 8192) rAt aAt X1 X2 X3 (specTableOk_tail htab) hwf' hinc' hprev'
        (by rw [← hlw]; exact FormatSpec.drop_of_append dB) dR dA
      simp only [Cont.frozenType, Cont.frozenCount, fp_typeBitmap, hbs, hcard, hrec]
      simp [Cont.toBSet]
    | run runs =>
      rw [hc] at hswf
      simp only [Cont.wf, Bool.and_eq_true, decide_eq_true_eq, runMinimal, Bool.not_eq_true', List.isEmpty_eq_false_iff] at hswf
      obtain ⟨⟨hne, hok⟩, hmin⟩ := hswf
      have hb := runsOk_bound runs hok
      have hcnt : runs.length % 65536 = runs.length := by omega
      have hlr : (runs.flatMap fun (p : Nat × Nat) => le16 p.1 ++ le16 p.2).length = 2 * (2 * runs.length) := by
        rw [flatMap_length_const (fun p : Nat × Nat => le16 p.1 ++ le16 p.2) 4 (fun _ => rfl) runs]; omega
      simp only [slotBits, slotRuns, slotArrs, hc, List.nil_append] at dB dR dA
      have hpairs := pairs16_le16 Prod.fst Prod.snd runs (fun p hp => by have := hb p hp; omega)
      have hw : (words16 b rAt (2 * runs.length)).map rlePairs = some runs := by
        rw [words16_eq', FormatSpec.words16_eq, dR, takeN_append _ _ _ hlr]
        simp [rlePairs_eq, hpairs]
      cases hws : words16 b rAt (2 * runs.length) with
      | none => simp [hws] at hw
      | some wl =>
        simp only [hws, Option.map_some, Option.some.injEq] at hw
        have hrec := ih (i + 1) (some s.key) bAt (rAt + 4 * runs.length) aAt X1 X2 X3 (specTableOk_tail htab) hwf' hinc' hprev'
          dB (by rw [show 4 * runs.length = (runs.flatMap fun (p : Nat × Nat) => le16 p.1 ++ le16 p.2).length by rw [hlr]; omega]
                 exact FormatSpec.drop_of_append dR) dA
        have hne' : runs.length ≠ 0 := by simpa using hne
        simp only [Cont.frozenType, Cont.frozenCount, fp_typeRun, hcnt, hws, hw, runsDisjoint_of_runsOk runs hok, hrec]
        simp [Cont.toBSet, hne']

/-- **C13 layout conformance.**  The bytes `FreezeTo` writes for a well-formed bitmap are a conformant frozen stream under
the independent reading of the CRoaring layout description, and encode exactly the bitmap's elements. -/
theorem frozenSpec_freeze (r : Rep) (hwf : r.wf = true) :
    frozenSpecDecode (r.freeze Driver.frozenParams).toArray = some r.toBSet := by
  obtain ⟨hn, hkeys, hcwf⟩ := wf_slots r hwf
  have hinc : strictInc (r.slots.map (·.key)) = true := by
    simp only [Rep.wf, Bool.and_eq_true] at hwf; exact hwf.1
  generalize hLdef : r.freeze Driver.frozenParams = L
  have hL := hLdef.symm
  rw [freeze_eq, fp_cookie, cookie_or, Nat.mod_eq_of_lt (by omega)] at hL
  generalize hT : tallyAdd {} r.slots = T
  obtain ⟨lb, lr, la⟩ := tallyAdd_lengths r.slots {} hcwf
  rw [hT] at lb lr la
  simp only [Nat.mul_zero, Nat.zero_add] at lb lr la
  have lk : (r.slots.flatMap fun s => le16 s.key).length = 2 * r.slots.length :=
    flatMap_length_const (fun s : Slot => le16 s.key) 2 (fun _ => rfl) r.slots
  have lc : (r.slots.flatMap fun s => le16 s.c.frozenCount).length = 2 * r.slots.length :=
    flatMap_length_const (fun s : Slot => le16 s.c.frozenCount) 2 (fun _ => rfl) r.slots
  have dB : L.drop 0 = _ := hL
  have dR := drop_app dB
  have dA := drop_app dR
  have dK := drop_app dA
  have dC := drop_app dK
  have dT := drop_app dC
  have dH := drop_app dT
  have hlen : L.length = 8192 * T.nBitmap + 4 * T.nRunEl + 2 * T.nArrayEl + 5 * r.slots.length + 4 := by
    rw [hL]; simp only [List.length_append, List.length_map, le32_length, lk, lc]; omega
  simp only [Nat.zero_add, List.length_map, lk, lc] at dR dA dK dC dT dH
  generalize hn' : r.slots.length = n at *
  obtain ⟨H, hH⟩ : ∃ H, H = 13766 + n * 32768 := ⟨_, rfl⟩
  rw [← hH] at dH dT
  have hs : L.toArray.size = 8192 * T.nBitmap + 4 * T.nRunEl + 2 * T.nArrayEl + 5 * n + 4 := by simpa using hlen
  rw [lb, lr, la] at dK dC dT dH
  rw [lb] at dR dA
  rw [lr] at dA
  generalize hrest : 8192 * T.nBitmap + 4 * T.nRunEl + 2 * T.nArrayEl = rest at *
  -- header
  have hlo : u16 L.toArray (L.toArray.size - 4) = some (H % 65536) := by
    rw [u16_eq', FormatSpec.u16_eq, show L.toArray.size - 4 = rest + 2 * n + 2 * n + n by omega]
    simp only [dH, le32]
    rw [rd16_le16 _ (by omega)]; rfl
  have hhi : u16 L.toArray (L.toArray.size - 2) = some (H / 65536 % 65536) := by
    have : L.drop (rest + 2 * n + 2 * n + n + 2) = le16 (H / 65536 % 65536) ++ [] := by
      have := drop_app (a := le16 (H % 65536)) (t := le16 (H / 65536 % 65536) ++ []) (p := rest + 2 * n + 2 * n + n) (by simpa [le32] using dH)
      simpa using this
    rw [u16_eq', FormatSpec.u16_eq, show L.toArray.size - 2 = rest + 2 * n + 2 * n + n + 2 by omega]
    simp only [this]
    rw [rd16_le16 _ (by omega)]; rfl
  have e0 : H % 65536 + 65536 * (H / 65536 % 65536) = H := by omega
  have e1 : H % 32768 = 13766 := by omega
  have e2 : H / 32768 = n := by omega
  -- tables
  have htab : specTableOk L.toArray (rest + 4 * n) (rest + 2 * n) rest 0 r.slots := by
    intro j hj
    rw [hn'] at hj
    refine ⟨?_, ?_, ?_⟩
    · have hj' : j < (r.slots.map fun s => UInt8.ofNat (Cont.frozenType Driver.frozenParams s.c)).length := by simp [hn', hj]
      have := FormatSpec.u8_of_drop (b := L.toArray) (p := rest + 2 * n + 2 * n) (by simpa using dT) j hj'
      rw [u8_eq', show rest + 4 * n + (0 + j) = rest + 2 * n + 2 * n + j by omega, this]
      simp only [List.getElem_map, UInt8.toNat_ofNat']
      cases r.slots[j].c <;> rfl
    · have := u16_table L.toArray (fun s : Slot => s.c.frozenCount) r.slots (fun s _ => frozenCount_lt s.c) (rest + 2 * n) _
        (by simpa using dC) j (hn' ▸ hj)
      simpa using this
    · have := u16_table L.toArray (fun s : Slot => s.key) r.slots hkeys rest _ (by simpa using dK) j (hn' ▸ hj)
      simpa using this
  have hsizes := arenaSizes_freeze L.toArray (rest + 4 * n) (rest + 2 * n) rest r.slots 0 {} htab hcwf
  rw [hT, hn'] at hsizes
  have hsets := containerSets_freeze L.toArray (rest + 4 * n) (rest + 2 * n) rest r.slots 0 none 0 (8192 * T.nBitmap)
    (8192 * T.nBitmap + 4 * T.nRunEl) _ _ _ htab hcwf hinc (fun _ _ => rfl) (by simpa using dB) (by simpa using dR) (by simpa using dA)
  rw [hn'] at hsets
  have t1 : L.toArray.size - 4 - n = rest + 4 * n := by omega
  have t2 : rest + 4 * n - 2 * n = rest + 2 * n := by omega
  have t3 : rest + 2 * n - 2 * n = rest := by omega
  unfold frozenSpecDecode
  simp only [hlo, hhi, e0, e1, e2, t1, t2, t3]
  rw [if_neg (by omega)]
  simp only [bne_self_eq_false, Bool.false_eq_true, if_false]
  rw [if_neg (by omega), if_neg (by omega)]
  simp only [hsizes, hsets, hrest, bne_self_eq_false, Bool.false_eq_true, if_false, Option.map_some]
  rfl
end RModel.FrozenSpec
