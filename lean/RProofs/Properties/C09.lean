import RModel.Impl.Serial
/-!
Properties C09 / C10(c): well-formedness versus the mirror of the Go `Validate`.

* `wf_implies_validate`: every well-formed representation passes (the model of) `Validate` — with the
  correspondence line `wf x` (Go's `Validate()` result equals the model's `validate` on the hooked representation,
  and `Rep.wf` holds on it) this is "library-made bitmaps always validate".
* `validate_implies_wf_of_decoded`: a representation produced by the decoder that passes `Validate` is well formed
  (a genuine set) — the converse direction needed by C10; the side conditions are exactly what the decoder
  guarantees by construction (`DecodedShape`).
-/
namespace RModel.Impl

/-- what `decode` guarantees about the shape of what it builds, whatever the bytes were -/
def Cont.decodedShape : Cont → Bool
  | .arr vals => vals.all (· < 65536)
  | .bmp card words => words.length == 1024 && card > 4096
  | .run runs => runs.all fun (s, l) => s < 65536 && l < 65536

def Rep.decodedShape (r : Rep) : Bool := r.slots.all fun s => s.key < 65536 && s.c.decodedShape

/-! ### helper lemmas: popcount -/

theorem popcount_le (w : BitVec 64) : popcount w ≤ 64 := by
  unfold popcount
  have := List.length_filter_le w.getLsbD (List.range 64)
  simpa using this

theorem sum_popcount_le (ws : List (BitVec 64)) : (ws.map popcount).sum ≤ 64 * ws.length := by
  induction ws with
  | nil => simp
  | cons w t ih =>
    have := popcount_le w
    simp only [List.map_cons, List.sum_cons, List.length_cons]
    omega

/-! ### helper lemmas: run lists -/

theorem runsOk_tail (a : Nat × Nat) (t : List (Nat × Nat)) (h : runsOk (a :: t) = true) : runsOk t = true := by
  obtain ⟨s, l⟩ := a
  cases t with
  | nil => rfl
  | cons b t =>
    obtain ⟨s', l'⟩ := b
    simp only [runsOk, Bool.and_eq_true] at h
    exact h.2

theorem runsOk_all_le (runs : List (Nat × Nat)) (h : runsOk runs = true) :
    ∀ p ∈ runs, p.1 + p.2 ≤ 65535 := by
  induction runs with
  | nil => simp
  | cons a t ih =>
    have iht := ih (runsOk_tail a t h)
    obtain ⟨s, l⟩ := a
    cases t with
    | nil =>
      simp only [runsOk, decide_eq_true_eq] at h
      simpa using h
    | cons b t =>
      obtain ⟨s', l'⟩ := b
      simp only [runsOk, Bool.and_eq_true, decide_eq_true_eq] at h
      have hb := iht (s', l') (by simp)
      intro p hp
      rcases List.mem_cons.1 hp with rfl | hp
      · simp only at hb ⊢; omega
      · exact iht p hp

theorem runsOk_sep (t : List (Nat × Nat)) : ∀ (a : Nat × Nat), runsOk (a :: t) = true →
    ∀ b ∈ t, a.1 + a.2 + 1 < b.1 := by
  induction t with
  | nil => simp
  | cons b t ih =>
    intro a h
    obtain ⟨s, l⟩ := a
    obtain ⟨s', l'⟩ := b
    simp only [runsOk, Bool.and_eq_true, decide_eq_true_eq] at h
    have := ih (s', l') h.2
    intro c hc
    rcases List.mem_cons.1 hc with rfl | hc
    · exact h.1
    · have := this c hc
      simp only at this ⊢
      omega

/-- two in-range runs, the first ending at least two before the second starts, pass the Go pair test -/
theorem nonContigDisjoint_of_sep (a b : Nat × Nat) (hsep : a.1 + a.2 + 1 < b.1) (hb : b.1 + b.2 ≤ 65535) :
    nonContigDisjoint a b = true := by
  obtain ⟨as, al⟩ := a
  obtain ⟨bs, bl⟩ := b
  simp only at hsep hb
  have h1 : (as + al) % 65536 = as + al := Nat.mod_eq_of_lt (by omega)
  have h2 : (bs + bl) % 65536 = bs + bl := Nat.mod_eq_of_lt (by omega)
  simp only [nonContigDisjoint, last16, h1, h2]
  have e1 : (as == bs) = false := by simp; omega
  have e2 : (as == bs + bl + 1) = false := by simp; omega
  have e3 : (as + al == bs + 1) = false := by simp; omega
  have e4 : (bs == as + al + 1) = false := by simp; omega
  have e5 : (bs + bl == as + 1) = false := by simp; omega
  have e6 : decide (bs ≤ as + al) = false := by simp; omega
  have e7 : decide (bs ≤ as) = false := by simp; omega
  simp [e1, e2, e3, e4, e5, e6, e7]

/-- conversely, for in-range runs with `a` starting first, the Go pair test forces the gap -/
theorem sep_of_nonContigDisjoint (a b : Nat × Nat) (ha : a.1 + a.2 ≤ 65535) (hb : b.1 + b.2 ≤ 65535)
    (hlt : a.1 < b.1) (h : nonContigDisjoint a b = true) : a.1 + a.2 + 1 < b.1 := by
  obtain ⟨as, al⟩ := a
  obtain ⟨bs, bl⟩ := b
  simp only at ha hb hlt ⊢
  have h1 : (as + al) % 65536 = as + al := Nat.mod_eq_of_lt (by omega)
  have h2 : (bs + bl) % 65536 = bs + bl := Nat.mod_eq_of_lt (by omega)
  simp only [nonContigDisjoint, last16, h1, h2] at h
  by_cases c : as + al + 1 < bs
  · exact c
  · exfalso
    by_cases c1 : bs = as + al + 1
    · have : (bs == as + al + 1) = true := by simp [c1]
      simp [this] at h
    · have e6 : decide (bs ≤ as + al) = true := by simp; omega
      have e7 : decide (as ≤ bs) = true := by simp; omega
      simp [e6, e7] at h

theorem runPairsOk_of_runsOk (runs : List (Nat × Nat)) (h : runsOk runs = true) : runPairsOk runs = true := by
  induction runs with
  | nil => rfl
  | cons a t ih =>
    have hle := runsOk_all_le _ h
    have hsep := runsOk_sep t a h
    simp only [runPairsOk, Bool.and_eq_true, List.all_eq_true]
    refine ⟨?_, ih (runsOk_tail a t h)⟩
    intro b hb
    have h1 := hsep b hb
    have h2 := hle b (List.mem_cons_of_mem _ hb)
    refine ⟨⟨?_, ?_⟩, nonContigDisjoint_of_sep a b h1 h2⟩
    · simp only [Bool.not_eq_true', beq_eq_false_iff_ne, ne_eq]
      rintro rfl
      omega
    · simp only [decide_eq_true_eq]; omega

theorem runsOk_of_runPairsOk (runs : List (Nat × Nat)) (hle : ∀ p ∈ runs, p.1 + p.2 ≤ 65535)
    (h : runPairsOk runs = true) : runsOk runs = true := by
  induction runs with
  | nil => rfl
  | cons a t ih =>
    simp only [runPairsOk, Bool.and_eq_true, List.all_eq_true] at h
    have iht := ih (fun p hp => hle p (List.mem_cons_of_mem _ hp)) h.2
    have ha := hle a (by simp)
    obtain ⟨s, l⟩ := a
    cases t with
    | nil => simpa [runsOk] using ha
    | cons b t =>
      have hb := hle b (by simp)
      have hab := h.1 b (by simp)
      obtain ⟨s', l'⟩ := b
      simp only [decide_eq_true_eq] at hab
      have := sep_of_nonContigDisjoint (s, l) (s', l') ha hb hab.1.2 hab.2
      simp only [runsOk, Bool.and_eq_true, decide_eq_true_eq]
      exact ⟨this, iht⟩

theorem runs_card_pos (runs : List (Nat × Nat)) (h : runs ≠ []) :
    0 < (runs.map fun (_, l) => l + 1).sum := by
  cases runs with
  | nil => exact absurd rfl h
  | cons a t => simp only [List.map_cons, List.sum_cons]; omega

/-! ### the two directions, container level -/

theorem Cont.wf_implies_validate (c : Cont) (h : c.wf = true) : c.validate = true := by
  cases c with
  | arr vals =>
    simp only [Cont.wf, Bool.and_eq_true] at h
    simp only [Cont.validate, Bool.and_eq_true]
    exact ⟨⟨h.1.1.1, h.1.1.2⟩, h.1.2⟩
  | bmp card words =>
    simp only [Cont.wf, Bool.and_eq_true, decide_eq_true_eq, beq_iff_eq] at h
    obtain ⟨⟨hlen, hcard⟩, hgt⟩ := h
    have := sum_popcount_le words
    simp only [Cont.validate, Bool.and_eq_true, Bool.not_eq_true', decide_eq_false_iff_not, beq_iff_eq]
    refine ⟨⟨⟨?_, ?_⟩, ?_⟩, hcard⟩ <;> omega
  | run runs =>
    simp only [Cont.wf, Bool.and_eq_true, Bool.not_eq_true', List.isEmpty_eq_false_iff] at h
    obtain ⟨⟨hne, hok⟩, hmin⟩ := h
    have hpos := runs_card_pos runs hne
    simp only at hpos hmin
    have hle := runsOk_all_le runs hok
    have hpairs := runPairsOk_of_runsOk runs hok
    simp only [runMinimal, decide_eq_true_eq] at hmin
    simp only [Cont.validate, Bool.and_eq_true, bne_iff_ne, ne_eq, List.all_eq_true]
    refine ⟨⟨⟨by omega, ?_⟩, hpairs⟩, ?_⟩
    · intro p hp
      have := hle p hp
      obtain ⟨s, l⟩ := p
      simp only [Bool.not_eq_true', decide_eq_false_iff_not] at this ⊢
      omega
    · have : 4 * runs.length + 2 < min 8224 (2 * (runs.map fun x => x.2 + 1).sum) := by omega
      simp only [this, if_true]

theorem Cont.validate_implies_wf (c : Cont) (hs : c.decodedShape = true) (hv : c.validate = true) :
    c.wf = true := by
  cases c with
  | arr vals =>
    simp only [Cont.validate, Bool.and_eq_true] at hv
    simp only [Cont.decodedShape] at hs
    simp only [Cont.wf, Bool.and_eq_true]
    exact ⟨⟨⟨hv.1.1, hv.1.2⟩, hv.2⟩, hs⟩
  | bmp card words =>
    simp only [Cont.validate, Bool.and_eq_true, beq_iff_eq] at hv
    simp only [Cont.decodedShape, Bool.and_eq_true, beq_iff_eq] at hs
    simp only [Cont.wf, Bool.and_eq_true, beq_iff_eq]
    exact ⟨⟨hs.1, hv.2⟩, hs.2⟩
  | run runs =>
    simp only [Cont.validate, Bool.and_eq_true, bne_iff_ne, ne_eq, List.all_eq_true] at hv
    obtain ⟨⟨⟨hcard, hle⟩, hpairs⟩, hsz⟩ := hv
    have hne : runs ≠ [] := by
      rintro rfl
      simp at hcard
    have hle' : ∀ p ∈ runs, p.1 + p.2 ≤ 65535 := by
      intro p hp
      have := hle p hp
      obtain ⟨s, l⟩ := p
      simp only [Bool.not_eq_true', decide_eq_false_iff_not] at this ⊢
      omega
    have hok := runsOk_of_runPairsOk runs hle' hpairs
    simp only [Cont.wf, Bool.and_eq_true, Bool.not_eq_true', List.isEmpty_eq_false_iff, runMinimal,
      decide_eq_true_eq]
    refine ⟨⟨hne, hok⟩, ?_⟩
    by_cases c : 4 * runs.length + 2 < min 8224 (2 * (runs.map fun x => x.2 + 1).sum)
    · omega
    · exfalso
      simp only [c, if_false] at hsz
      split at hsz
      · exact absurd hsz (by simp)
      · split at hsz
        · exact absurd hsz (by simp)
        · omega

theorem wf_implies_validate (r : Rep) (h : r.wf = true) : r.validate = true := by
  simp only [Rep.wf, Bool.and_eq_true, List.all_eq_true, decide_eq_true_eq] at h
  simp only [Rep.validate, Bool.and_eq_true, List.all_eq_true]
  exact ⟨h.1, fun s hs => Cont.wf_implies_validate s.c (h.2 s hs).2⟩

theorem validate_implies_wf_of_decoded (r : Rep) (hs : r.decodedShape = true) (hv : r.validate = true) :
    r.wf = true := by
  simp only [Rep.validate, Bool.and_eq_true, List.all_eq_true] at hv
  simp only [Rep.decodedShape, Bool.and_eq_true, List.all_eq_true, decide_eq_true_eq] at hs
  simp only [Rep.wf, Bool.and_eq_true, List.all_eq_true, decide_eq_true_eq]
  exact ⟨hv.1, fun s h => ⟨(hs s h).1, Cont.validate_implies_wf s.c (hs s h).2 (hv.2 s h)⟩⟩

/-! ### helper lemmas: the reader -/

theorem bytesTo16s_lt : ∀ (bs : Bytes), ∀ v ∈ bytesTo16s bs, v < 65536
  | [] => by simp [bytesTo16s]
  | [_] => by simp [bytesTo16s]
  | a :: b :: t => by
    intro v hv
    simp only [bytesTo16s, List.mem_cons] at hv
    rcases hv with rfl | hv
    · have := a.toNat_lt; have := b.toNat_lt; omega
    · exact bytesTo16s_lt t v hv

theorem pairs16_mem : ∀ (l : List Nat) (p : Nat × Nat), p ∈ pairs16 l → p.1 ∈ l ∧ p.2 ∈ l
  | [], p => by simp [pairs16]
  | [_], p => by simp [pairs16]
  | a :: b :: t, p => by
    intro hp
    simp only [pairs16, List.mem_cons] at hp
    rcases hp with rfl | hp
    · simp
    · have := pairs16_mem t p hp
      simp [this.1, this.2]

theorem pairs16_bytes_lt (bs : Bytes) (p : Nat × Nat) (hp : p ∈ pairs16 (bytesTo16s bs)) :
    p.1 < 65536 ∧ p.2 < 65536 :=
  have := pairs16_mem _ p hp
  ⟨bytesTo16s_lt bs _ this.1, bytesTo16s_lt bs _ this.2⟩

theorem bytesToWords_length (n : Nat) : ∀ (bs : Bytes), bs.length = 8 * n → (bytesToWords bs).length = n := by
  induction n with
  | zero =>
    intro bs h
    have : bs = [] := List.eq_nil_of_length_eq_zero (by omega)
    subst this; rfl
  | succ n ih =>
    intro bs h
    rcases bs with _ | ⟨b0, _ | ⟨b1, _ | ⟨b2, _ | ⟨b3, _ | ⟨b4, _ | ⟨b5, _ | ⟨b6, _ | ⟨b7, t⟩⟩⟩⟩⟩⟩⟩⟩ <;>
      simp only [List.length_cons, List.length_nil] at h <;> try omega
    simp only [bytesToWords, List.length_cons]
    rw [ih t (by omega)]

theorem takeN_length (n : Nat) (bs p rest : Bytes) (h : takeN n bs = some (p, rest)) : p.length = n := by
  unfold takeN at h
  split at h
  · simp only [Option.some.injEq, Prod.mk.injEq] at h
    rw [← h.1, List.length_take]; omega
  · exact absurd h (by simp)

/-- the shape of one container as read by `readContainers`, whatever the run bit is -/
theorem readOne_shape (P : SerParams) (hP : P.arrayMax = 4096) (runBit : Bool) (cardm1 : Nat) (bs : Bytes)
    (c : Cont) (bs2 : Bytes)
    (hone : (if runBit then
        match rd16 bs with
        | none => none
        | some (nr, bs1) => (takeN (nr * 4) bs1).map fun (p, bs2) => (Cont.run (pairs16 (bytesTo16s p)), bs2)
      else if cardm1 + 1 > P.arrayMax then
        (takeN (P.arrayMax * 2) bs).map fun (p, bs2) => (Cont.bmp ((cardm1 + 1 : Nat) : Int) (bytesToWords p), bs2)
      else
        (takeN ((cardm1 + 1) * 2) bs).map fun (p, bs2) => (Cont.arr (bytesTo16s p), bs2)) = some (c, bs2)) :
    c.decodedShape = true := by
  split at hone
  · split at hone
    · exact absurd hone (by simp)
    · rename_i nr bs1 _
      simp only [Option.map_eq_some_iff] at hone
      obtain ⟨⟨p, q⟩, _, hpq⟩ := hone
      simp only [Prod.mk.injEq] at hpq
      rw [← hpq.1]
      simp only [Cont.decodedShape, List.all_eq_true]
      intro pr hpr
      have := pairs16_bytes_lt p pr hpr
      obtain ⟨a, b⟩ := pr
      simpa using this
  · split at hone
    · rename_i hgt
      simp only [Option.map_eq_some_iff] at hone
      obtain ⟨⟨p, q⟩, htk, hpq⟩ := hone
      simp only [Prod.mk.injEq] at hpq
      rw [← hpq.1]
      have hl := takeN_length _ _ _ _ htk
      have := bytesToWords_length 1024 p (by omega)
      simp only [Cont.decodedShape, this, Bool.and_eq_true, decide_eq_true_eq, beq_self_eq_true, true_and]
      omega
    · simp only [Option.map_eq_some_iff] at hone
      obtain ⟨⟨p, q⟩, htk, hpq⟩ := hone
      simp only [Prod.mk.injEq] at hpq
      rw [← hpq.1]
      simp only [Cont.decodedShape, List.all_eq_true, decide_eq_true_eq]
      exact bytesTo16s_lt p

theorem readContainers_shape (P : SerParams) (hP : P.arrayMax = 4096) (flag : Bool) (isRun : Option Bytes)
    (kcs : List (Nat × Nat)) : ∀ (i : Nat) (bs : Bytes) (ss : List Slot) (rest : Bytes),
    (∀ kc ∈ kcs, kc.1 < 65536) → readContainers P flag isRun i kcs bs = some (ss, rest) →
    ∀ s ∈ ss, s.key < 65536 ∧ s.c.decodedShape = true := by
  induction kcs with
  | nil =>
    intro i bs ss rest _ h
    simp only [readContainers, Option.some.injEq, Prod.mk.injEq] at h
    rw [← h.1]; simp
  | cons kc t ih =>
    intro i bs ss rest hk h
    obtain ⟨key, cardm1⟩ := kc
    simp only [readContainers] at h
    split at h
    · exact absurd h (by simp)
    · rename_i c bs2 hone
      split at h
      · exact absurd h (by simp)
      · rename_i ss' bs3 hrec
        simp only [Option.some.injEq, Prod.mk.injEq] at h
        have iht := ih (i + 1) bs2 ss' bs3 (fun kc hkc => hk kc (List.mem_cons_of_mem _ hkc)) hrec
        rw [← h.1]
        intro s hs
        rcases List.mem_cons.1 hs with rfl | hs
        · exact ⟨hk (key, cardm1) (by simp), readOne_shape P hP _ cardm1 bs c bs2 hone⟩
        · exact iht s hs

/-- the decoder only builds representations of that shape -/
theorem decode_shape (P : SerParams) (hP : P.arrayMax = 4096) (flag : Bool) (bs : Bytes) (r : Rep) (n : Nat)
    (h : decode P flag bs = .ok (r, n)) : r.decodedShape = true := by
  unfold decode at h
  split at h
  · exact absurd h (by simp)
  · simp only at h
    split at h
    · exact absurd h (by simp)
    · split at h
      · exact absurd h (by simp)
      · split at h
        · exact absurd h (by simp)
        · rename_i kc bs3 hkc
          split at h
          · exact absurd h (by simp)
          · split at h
            · exact absurd h (by simp)
            · rename_i slots rest hrc
              simp only [Outcome.ok.injEq, Prod.mk.injEq] at h
              have := readContainers_shape P hP flag _ _ _ _ _ _
                (fun kc' hkc' => (pairs16_bytes_lt kc kc' hkc').1) hrc
              rw [← h.1]
              simp only [Rep.decodedShape, List.all_eq_true, Bool.and_eq_true, decide_eq_true_eq]
              exact this

/-- C10(c): decoding succeeded and Validate()==nil ⇒ well-formed -/
theorem decoded_valid_is_wf (P : SerParams) (hP : P.arrayMax = 4096) (flag : Bool) (bs : Bytes) (r : Rep) (n : Nat)
    (h : decode P flag bs = .ok (r, n)) (hv : r.validate = true) : r.wf = true :=
  validate_implies_wf_of_decoded r (decode_shape P hP flag bs r n h) hv


end RModel.Impl
