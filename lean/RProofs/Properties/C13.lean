import RModel.Impl.Frozen
import RModel.Driver.Frozen
import RProofs.SerialLemmas
/-!
Property C13 — the CRoaring "frozen" format — as theorems about the L2 writer/reader model (`Impl/Frozen.lean`, tied
byte for byte to `FreezeTo` / `FrozenView` by the `frz` / `fdec` correspondence lines):

* `freeze_length`        the writer emits exactly `GetFrozenSizeInBytes()` bytes;
* `frozenView_no_panic`  the reader never reaches an out-of-range index / slice bound / misaligned cast / the
                         "we missed something" panic, on ANY input (the FrozenView part of C10);
* `frozenView_freeze`    reading back what was written gives the same keys and containers, all flagged copy-on-write.
-/
namespace RModel.Impl
open RModel

/-! ### writer: byte count -/

theorem frozenBitmapBytes_length (P : FrozenParams) (h8 : P.bitmapBytes % 8 = 0) (ws : List (BitVec 64)) :
    (frozenBitmapBytes P ws).length = P.bitmapBytes := by
  simp only [frozenBitmapBytes]
  rw [flatMap_length_const (fun w : BitVec 64 => le64 w.toNat) 8 (fun _ => rfl)]
  simp only [List.length_take, List.length_append, List.length_replicate]
  omega

/-- `FreezeTo` writes exactly `GetFrozenSizeInBytes()` bytes (for any parameters with a whole number of 64-bit words per
bitmap container; with the real `1 << 13` this holds) -/
theorem freeze_length (P : FrozenParams) (h8 : P.bitmapBytes % 8 = 0) (r : Rep) :
    (r.freeze P).length = r.frozenSize P := by
  simp only [Rep.freeze, Rep.frozenSize, List.length_append, le32_length]
  rw [flatMap_length_const (fun s : Slot => le16 s.key) 2 (fun _ => rfl),
      flatMap_length_const (fun c : Cont => le16 c.frozenCount) 2 (fun _ => rfl)]
  rw [show r.slots.length = (r.slots.map (·.c)).length by simp]
  generalize r.slots.map (·.c) = cs
  simp only [List.length_map]
  induction cs with
  | nil => simp
  | cons c t ih =>
    cases c with
    | arr vals =>
      simp only [List.flatMap_cons, List.length_append, List.filter_cons, List.map_cons, List.sum_cons, List.length_nil,
        flatMap_length_const le16 2 le16_length, ↓reduceIte, Bool.false_eq_true, List.length_cons] at ih ⊢
      omega
    | bmp card ws =>
      simp only [List.flatMap_cons, List.length_append, List.filter_cons, List.map_cons, List.sum_cons, List.length_nil,
        frozenBitmapBytes_length P h8, ↓reduceIte, List.length_cons, Nat.add_mul] at ih ⊢
      omega
    | run runs =>
      simp only [List.flatMap_cons, List.length_append, List.filter_cons, List.map_cons, List.sum_cons, List.length_nil,
        flatMap_length_const (fun p : Nat × Nat => le16 p.1 ++ le16 p.2) 4 (fun _ => rfl), ↓reduceIte, Bool.false_eq_true,
        List.length_cons] at ih ⊢
      omega
/-! ### reader: the Go slice operations, step by step -/

@[simp] theorem Outcome.ok_bind {α β} (v : α) (f : α → Outcome β) : (Outcome.ok v >>= f) = f v := rfl
@[simp] theorem Outcome.err_bind {α β} (f : α → Outcome β) : (Outcome.err >>= f) = .err := rfl
@[simp] theorem Outcome.panic_bind {α β} (f : α → Outcome β) : (Outcome.panic >>= f) = .panic := rfl
@[simp] theorem Outcome.pure_eq {α} (v : α) : (pure v : Outcome α) = .ok v := rfl

theorem sliceFrom_nat (s : Win) (a : Nat) (h : a ≤ s.len) :
    s.sliceFrom (a : Int) = .ok { s with off := s.off + a * s.elem, len := s.len - a } := by
  simp [Win.sliceFrom, h]

theorem sliceTo_nat (s : Win) (a : Nat) (h : a ≤ s.len) :
    s.sliceTo (a : Int) = .ok { s with len := a } := by
  simp [Win.sliceTo, h]

theorem cast_ok (s : Win) (e : Nat) (h1 : s.elem = 1) (h2 : s.len % e = 0) :
    s.cast e = .ok { off := s.off, len := s.len / e, elem := e } := by
  simp [Win.cast, h1, h2]

theorem idx_ok (b : Array UInt8) (s : Win) (i : Nat) (h : i < s.len) :
    s.idx b i = .ok (leAt b (s.off + i * s.elem) s.elem) := by
  simp [Win.idx, h]

def hdrWord (b : Array UInt8) : Nat :=
  byteAt b (b.size - 4) + 256 * (byteAt b (b.size - 3) + 256 * (byteAt b (b.size - 2) + 256 * byteAt b (b.size - 1)))
def hdrWordBE (b : Array UInt8) : Nat :=
  byteAt b (b.size - 1) + 256 * (byteAt b (b.size - 2) + 256 * (byteAt b (b.size - 3) + 256 * byteAt b (b.size - 4)))

theorem frozenHeader_eq (P : FrozenParams) (b : Array UInt8) :
    frozenHeader P b =
      if b.size < 4 then .err
      else if hdrWordBE b % 32768 == P.cookie then .err
      else if hdrWord b % 32768 != P.cookie then .err
      else if hdrWord b / 32768 > P.maxContainers then .err
      else if b.size - 4 < 5 * (hdrWord b / 32768) then .err
      else
        let n := hdrWord b / 32768
        let rest := b.size - 4 - 5 * n
        .ok (⟨rest + 4 * n, n, 1⟩, ⟨rest + 2 * n, n, 2⟩, ⟨rest, n, 2⟩, ⟨0, rest, 1⟩) := by
  unfold frozenHeader
  by_cases h4 : b.size < 4
  · simp [h4]
  · have e4 : ((b.size : Int) - 4) = ((b.size - 4 : Nat) : Int) := by omega
    simp only [h4, if_false, e4]
    rw [sliceFrom_nat _ _ (by simp)]
    simp only [Outcome.ok_bind]
    have hl : b.size - (b.size - 4) = 4 := by omega
    have l1 : ∀ off, leAt b off 1 = byteAt b off := by intro off; simp [leAt, List.range_succ]
    simp only [hl, idx_ok b ⟨0 + (b.size - 4) * 1, 4, 1⟩ _ (by omega : 0 < 4), idx_ok b ⟨0 + (b.size - 4) * 1, 4, 1⟩ _ (by omega : 1 < 4),
      idx_ok b ⟨0 + (b.size - 4) * 1, 4, 1⟩ _ (by omega : 2 < 4), idx_ok b ⟨0 + (b.size - 4) * 1, 4, 1⟩ _ (by omega : 3 < 4),
      Outcome.ok_bind, l1]
    have e0 : 0 + (b.size - 4) * 1 + 0 * 1 = b.size - 4 := by omega
    have e1 : 0 + (b.size - 4) * 1 + 1 * 1 = b.size - 3 := by omega
    have e2 : 0 + (b.size - 4) * 1 + 2 * 1 = b.size - 2 := by omega
    have e3 : 0 + (b.size - 4) * 1 + 3 * 1 = b.size - 1 := by omega
    simp only [e0, e1, e2, e3]
    rw [sliceTo_nat _ _ (by simp)]
    simp only [Outcome.ok_bind]
    rw [show byteAt b (b.size - 4) + 256 * (byteAt b (b.size - 3) + 256 * (byteAt b (b.size - 2) + 256 * byteAt b (b.size - 1))) = hdrWord b from rfl,
      show byteAt b (b.size - 1) + 256 * (byteAt b (b.size - 2) + 256 * (byteAt b (b.size - 3) + 256 * byteAt b (b.size - 4))) = hdrWordBE b from rfl]
    generalize hdrWord b / 32768 = n
    split
    · rfl
    split
    · rfl
    split
    · rfl
    split
    · rfl
    rename_i hlen
    have a1 : ((b.size - 4 : Nat) : Int) - (n : Int) = ((b.size - 4 - n : Nat) : Int) := by omega
    simp only [a1]
    rw [sliceFrom_nat _ _ (by simp), sliceTo_nat _ _ (by simp)]
    simp only [Outcome.ok_bind]
    have a2 : ((b.size - 4 - n : Nat) : Int) - 2 * (n : Int) = ((b.size - 4 - n - 2 * n : Nat) : Int) := by omega
    try dsimp only
    simp only [a2]
    rw [sliceFrom_nat _ _ (by simp), sliceTo_nat _ _ (by simp)]
    simp only [Outcome.ok_bind]
    rw [cast_ok _ 2 rfl (by simp; omega)]
    simp only [Outcome.ok_bind]
    have a3 : ((b.size - 4 - n - 2 * n : Nat) : Int) - 2 * (n : Int) = ((b.size - 4 - n - 2 * n - 2 * n : Nat) : Int) := by omega
    try dsimp only
    simp only [a3]
    rw [sliceFrom_nat _ _ (by simp), sliceTo_nat _ _ (by simp)]
    simp only [Outcome.ok_bind]
    rw [cast_ok _ 2 rfl (by simp; omega)]
    simp only [Outcome.ok_bind, Outcome.pure_eq]
    have hlen' : 5 * n ≤ b.size - 4 := by omega
    have f1 : 0 + (b.size - 4 - n) * 1 = b.size - 4 - 5 * n + 4 * n := by omega
    have f2 : b.size - 4 - (b.size - 4 - n) = n := by omega
    have f3 : 0 + (b.size - 4 - n - 2 * n) * 1 = b.size - 4 - 5 * n + 2 * n := by omega
    have f4 : (b.size - 4 - n - (b.size - 4 - n - 2 * n)) / 2 = n := by omega
    have f5 : 0 + (b.size - 4 - n - 2 * n - 2 * n) * 1 = b.size - 4 - 5 * n := by omega
    have f6 : (b.size - 4 - n - 2 * n - (b.size - 4 - n - 2 * n - 2 * n)) / 2 = n := by omega
    have f7 : b.size - 4 - n - 2 * n - 2 * n = b.size - 4 - 5 * n := by omega
    rw [f1, f2, f3, f4, f5, f6, f7]

/-! ### the two passes -/

def codeAt (b : Array UInt8) (types : Win) (i : Nat) : Nat := leAt b (types.off + i * types.elem) types.elem

theorem tallyStep_eq (P : FrozenParams) (b : Array UInt8) (types counts : Win) (i : Nat) (t : Tally)
    (hi : i < types.len) (hc : i < counts.len) :
    tallyStep P b types counts i t =
      if codeAt b types i == P.typeBitmap then .ok { t with nBitmap := t.nBitmap + 1 }
      else if codeAt b types i == P.typeArray then
        .ok { t with nArray := t.nArray + 1, nArrayEl := t.nArrayEl + codeAt b counts i + 1 }
      else if codeAt b types i == P.typeRun then
        .ok { t with nRun := t.nRun + 1, nRunEl := t.nRunEl + codeAt b counts i }
      else .err := by
  simp only [tallyStep, idx_ok b types i hi, idx_ok b counts i hc, Outcome.ok_bind, Outcome.pure_eq, codeAt]
  repeat' split
  all_goals simp_all

theorem tallyLoop_mono (P : FrozenParams) (b : Array UInt8) (types counts : Win) (is : List Nat) :
    ∀ t t', (∀ i ∈ is, i < types.len ∧ i < counts.len) → tallyLoop P b types counts is t = .ok t' →
      t.nBitmap ≤ t'.nBitmap ∧ t.nArrayEl ≤ t'.nArrayEl ∧ t.nRunEl ≤ t'.nRunEl := by
  induction is with
  | nil => intro t t' _ h; simp [tallyLoop] at h; subst h; simp
  | cons i is ih =>
    intro t t' hidx h
    have hi := hidx i (by simp)
    simp only [tallyLoop, tallyStep_eq P b types counts i t hi.1 hi.2] at h
    have hrest : ∀ j ∈ is, j < types.len ∧ j < counts.len := fun j hj => hidx j (List.mem_cons_of_mem _ hj)
    split at h
    · have := ih _ _ hrest h; simp at this; omega
    split at h
    · have := ih _ _ hrest h; simp at this; omega
    split at h
    · have := ih _ _ hrest h; simp at this; omega
    · simp at h

theorem tallyLoop_no_panic (P : FrozenParams) (b : Array UInt8) (types counts : Win) (is : List Nat) :
    ∀ t, (∀ i ∈ is, i < types.len ∧ i < counts.len) → tallyLoop P b types counts is t ≠ .panic := by
  induction is with
  | nil => intro t _; simp [tallyLoop]
  | cons i is ih =>
    intro t hidx
    have hi := hidx i (by simp)
    have hrest : ∀ j ∈ is, j < types.len ∧ j < counts.len := fun j hj => hidx j (List.mem_cons_of_mem _ hj)
    simp only [tallyLoop, tallyStep_eq P b types counts i t hi.1 hi.2]
    repeat' split
    all_goals first | exact ih _ hrest | simp

theorem sliceFrom_ofNat (s : Win) (a : Nat) (h : a ≤ s.len) :
    s.sliceFrom (Int.ofNat a) = .ok { s with off := s.off + a * s.elem, len := s.len - a } := sliceFrom_nat s a h

theorem sliceTo_ofNat (s : Win) (a : Nat) (h : a ≤ s.len) :
    s.sliceTo (Int.ofNat a) = .ok { s with len := a } := sliceTo_nat s a h

theorem carveLoop_ok (P : FrozenParams) (b : Array UInt8) (types counts : Win) (is : List Nat) :
    ∀ (t t' : Tally) (a : Arenas), (∀ i ∈ is, i < types.len ∧ i < counts.len) →
      tallyLoop P b types counts is t = .ok t' →
      a.bitsets.len + P.bitmapBytes / 8 * t.nBitmap = P.bitmapBytes / 8 * t'.nBitmap →
      a.arrays.len + t.nArrayEl = t'.nArrayEl → a.runs.len + t.nRunEl = t'.nRunEl →
      ∃ a' ss, carveLoop P b types counts is a = .ok (a', ss) ∧
        a'.bitsets.len = 0 ∧ a'.arrays.len = 0 ∧ a'.runs.len = 0 ∧
        a'.iBitset + t.nBitmap = a.iBitset + t'.nBitmap ∧ a'.iArray + t.nArray = a.iArray + t'.nArray ∧
        a'.iRun + t.nRun = a.iRun + t'.nRun ∧ ss.length = is.length := by
  induction is with
  | nil =>
    intro t t' a _ h h1 h2 h3
    simp [tallyLoop] at h; subst h
    exact ⟨a, [], by simp [carveLoop], by omega, by omega, by omega, rfl, rfl, rfl, rfl⟩
  | cons i is ih =>
    intro t t' a hidx h h1 h2 h3
    have hi := hidx i (by simp)
    have hrest : ∀ j ∈ is, j < types.len ∧ j < counts.len := fun j hj => hidx j (List.mem_cons_of_mem _ hj)
    simp only [tallyLoop, tallyStep_eq P b types counts i t hi.1 hi.2] at h
    have et : leAt b (types.off + i * types.elem) types.elem = codeAt b types i := rfl
    have ec : leAt b (counts.off + i * counts.elem) counts.elem = codeAt b counts i := rfl
    simp only [carveLoop, carveStep, idx_ok b types i hi.1, idx_ok b counts i hi.2, Outcome.ok_bind, et, ec]
    split at h
    · rename_i hB
      rw [if_pos hB]
      have hm := tallyLoop_mono P b types counts is _ _ hrest h
      simp only at hm
      have hw : P.bitmapBytes / 8 ≤ a.bitsets.len := by
        have : P.bitmapBytes / 8 * (t.nBitmap + 1) ≤ P.bitmapBytes / 8 * t'.nBitmap := Nat.mul_le_mul_left _ hm.1
        rw [Nat.mul_succ] at this; omega
      rw [sliceTo_ofNat _ _ hw, sliceFrom_ofNat _ _ hw]
      simp only [Outcome.ok_bind, Outcome.pure_eq]
      obtain ⟨a', ss, he, r1, r2, r3, r4, r5, r6, r7⟩ := ih _ t' { a with bitsets := { a.bitsets with off := a.bitsets.off + P.bitmapBytes / 8 * a.bitsets.elem, len := a.bitsets.len - P.bitmapBytes / 8 }, iBitset := a.iBitset + 1 } hrest h
        (by simp only [Nat.mul_succ]; omega) h2 h3
      refine ⟨a', _ :: ss, by rw [he]; rfl, r1, r2, r3, ?_, r5, r6, by simp [r7]⟩
      simp only at r4; omega
    rename_i hB
    rw [if_neg hB]
    split at h
    · rename_i hA
      rw [if_pos hA]
      have hm := tallyLoop_mono P b types counts is _ _ hrest h
      simp only at hm
      have hw : codeAt b counts i + 1 ≤ a.arrays.len := by omega
      rw [sliceTo_ofNat _ _ hw, sliceFrom_ofNat _ _ hw]
      simp only [Outcome.ok_bind, Outcome.pure_eq]
      obtain ⟨a', ss, he, r1, r2, r3, r4, r5, r6, r7⟩ := ih _ t' { a with arrays := { a.arrays with off := a.arrays.off + (codeAt b counts i + 1) * a.arrays.elem, len := a.arrays.len - (codeAt b counts i + 1) }, iArray := a.iArray + 1 } hrest h
        h1 (by simp only; omega) h3
      refine ⟨a', _ :: ss, by rw [he]; rfl, r1, r2, r3, r4, ?_, r6, by simp [r7]⟩
      simp only at r5; omega
    rename_i hA
    rw [if_neg hA]
    split at h
    · rename_i hR
      rw [if_pos hR]
      have hm := tallyLoop_mono P b types counts is _ _ hrest h
      simp only at hm
      have hw : codeAt b counts i ≤ a.runs.len := by omega
      rw [sliceTo_ofNat _ _ hw, sliceFrom_ofNat _ _ hw]
      simp only [Outcome.ok_bind, Outcome.pure_eq]
      obtain ⟨a', ss, he, r1, r2, r3, r4, r5, r6, r7⟩ := ih _ t' { a with runs := { a.runs with off := a.runs.off + codeAt b counts i * a.runs.elem, len := a.runs.len - codeAt b counts i }, iRun := a.iRun + 1 } hrest h
        h1 h2 (by simp only; omega)
      refine ⟨a', _ :: ss, by rw [he]; rfl, r1, r2, r3, r4, r5, ?_, by simp [r7]⟩
      simp only at r6; omega
    · simp at h

theorem frozenArenas_eq (P : FrozenParams) (h8 : P.bitmapBytes % 8 = 0) (buf : Win) (t : Tally) (he : buf.elem = 1) :
    frozenArenas P buf t =
      if buf.len < P.bitmapBytes * t.nBitmap + 4 * t.nRunEl + 2 * t.nArrayEl then .err
      else if buf.len != P.bitmapBytes * t.nBitmap + 4 * t.nRunEl + 2 * t.nArrayEl then .err
      else .ok { bitsets := ⟨buf.off, P.bitmapBytes / 8 * t.nBitmap, 8⟩,
                 runs := ⟨buf.off + P.bitmapBytes * t.nBitmap, t.nRunEl, 4⟩,
                 arrays := ⟨buf.off + P.bitmapBytes * t.nBitmap + 4 * t.nRunEl, t.nArrayEl, 2⟩ } := by
  unfold frozenArenas
  split
  · rfl
  rename_i hlen
  have hB : P.bitmapBytes * t.nBitmap = 8 * (P.bitmapBytes / 8 * t.nBitmap) := by
    rw [← Nat.mul_assoc]; congr 1; omega
  generalize P.bitmapBytes * t.nBitmap = X at *
  generalize P.bitmapBytes / 8 * t.nBitmap = Y at *
  obtain ⟨off, len, elem⟩ := buf
  simp only at he hlen ⊢
  subst he
  rw [sliceTo_ofNat _ _ (by simp only; omega), sliceFrom_ofNat _ _ (by simp only; omega)]
  simp only [Outcome.ok_bind]
  rw [cast_ok _ 8 rfl (by simp only; omega)]
  simp only [Outcome.ok_bind]
  rw [sliceTo_ofNat _ _ (by simp only; omega), sliceFrom_ofNat _ _ (by simp only; omega)]
  simp only [Outcome.ok_bind]
  rw [cast_ok _ 4 rfl (by simp only; omega)]
  simp only [Outcome.ok_bind]
  rw [sliceTo_ofNat _ _ (by simp only; omega), sliceFrom_ofNat _ _ (by simp only; omega)]
  simp only [Outcome.ok_bind]
  rw [cast_ok _ 2 rfl (by simp only; omega)]
  simp only [Outcome.ok_bind, Outcome.pure_eq]
  have e1 : (len - X - 4 * t.nRunEl - 2 * t.nArrayEl != 0) = (len != X + 4 * t.nRunEl + 2 * t.nArrayEl) := by
    by_cases hq : len = X + 4 * t.nRunEl + 2 * t.nArrayEl
    · have : len - X - 4 * t.nRunEl - 2 * t.nArrayEl = 0 := by omega
      rw [this, hq]; simp
    · have : ¬ (len - X - 4 * t.nRunEl - 2 * t.nArrayEl = 0) := by omega
      rw [bne, bne, beq_false_of_ne this, beq_false_of_ne hq]
  rw [e1]
  split
  · rfl
  have g1 : X / 8 = Y := by omega
  have g2 : 4 * t.nRunEl / 4 = t.nRunEl := by omega
  have g3 : 2 * t.nArrayEl / 2 = t.nArrayEl := by omega
  simp only [g1, g2, g3, Nat.mul_one]

/-- **C10 for FrozenView.**  The reader never panics: no out-of-range index or slice bound, no misaligned cast, and the
final "we missed something" consistency panic is unreachable — on any input whatsoever.  (The only hypothesis is on the
parameters: a bitmap container is a whole number of 64-bit words; the Go literal is `1 << 13`.) -/
theorem frozenView_no_panic (P : FrozenParams) (h8 : P.bitmapBytes % 8 = 0) (bs : Bytes) :
    frozenView P bs ≠ .panic := by
  unfold frozenView
  simp only [frozenHeader_eq]
  generalize bs.toArray = b
  split
  · simp
  split
  · simp
  split
  · simp
  split
  · simp
  split
  · simp
  simp only [Outcome.ok_bind]
  generalize hdrWord b / 32768 = n
  have hidx : ∀ i ∈ List.range n, i < (⟨b.size - 4 - 5 * n + 4 * n, n, 1⟩ : Win).len ∧
      i < (⟨b.size - 4 - 5 * n + 2 * n, n, 2⟩ : Win).len := by
    intro i hi; simpa using hi
  cases hT : tallyLoop P b ⟨b.size - 4 - 5 * n + 4 * n, n, 1⟩ ⟨b.size - 4 - 5 * n + 2 * n, n, 2⟩ (List.range n) {} with
  | panic => exact absurd hT (tallyLoop_no_panic P b _ _ _ _ hidx)
  | err => simp
  | ok t =>
    simp only [Outcome.ok_bind]
    rw [frozenArenas_eq P h8 _ t rfl]
    split
    · simp
    split
    · simp
    simp only [Outcome.ok_bind]
    obtain ⟨a', ss, he, r1, r2, r3, r4, r5, r6, r7⟩ := carveLoop_ok P b _ _ (List.range n) {} t
      { bitsets := ⟨0, P.bitmapBytes / 8 * t.nBitmap, 8⟩, runs := ⟨0 + P.bitmapBytes * t.nBitmap, t.nRunEl, 4⟩,
        arrays := ⟨0 + P.bitmapBytes * t.nBitmap + 4 * t.nRunEl, t.nArrayEl, 2⟩ } hidx hT (by simp) (by simp) (by simp)
    simp only [he, Outcome.ok_bind]
    simp only [Nat.add_zero, Nat.zero_add] at r4 r5 r6
    have hk : (Win.u16s b ⟨b.size - 4 - 5 * n, n, 2⟩).length = ss.length := by simp [Win.u16s, r7]
    simp [r1, r2, r3, r4, r5, r6, hk]
/-! ### round trip: reading back what `FreezeTo` wrote -/

theorem byteAt_of_drop {L : List UInt8} {p : Nat} {x : UInt8} {t : List UInt8} (h : L.drop p = x :: t) :
    byteAt L.toArray p = x.toNat := by
  have : L[p]? = some x := by
    have := congrArg List.head? h
    simpa [List.head?_drop] using this
  obtain ⟨hp, hx⟩ := List.getElem?_eq_some_iff.mp this
  simp [byteAt, Array.getD, hp, hx]

theorem leAt2_of_drop {L : List UInt8} {p v : Nat} {t : List UInt8} (h : L.drop p = le16 v ++ t) (hv : v < 65536) :
    leAt L.toArray p 2 = v := by
  have h0 : L.drop p = (le16 v ++ t).drop 0 := h
  have h1 : L.drop (p + 1) = (le16 v ++ t).drop 1 := by rw [← List.drop_drop, h]
  simp only [le16, List.cons_append, List.nil_append, List.drop_succ_cons, List.drop_zero] at h0 h1
  simp [leAt, List.range_succ, byteAt_of_drop h0, byteAt_of_drop h1]
  omega

theorem leAt8_of_drop {L : List UInt8} {p : Nat} {w : BitVec 64} {t : List UInt8} (h : L.drop p = le64 w.toNat ++ t) :
    BitVec.ofNat 64 (leAt L.toArray p 8) = w := by
  have hw := w.isLt
  have h0 : L.drop (p + 0) = (le64 w.toNat ++ t).drop 0 := h
  have h1 : L.drop (p + 1) = (le64 w.toNat ++ t).drop 1 := by rw [← List.drop_drop, h]
  have h2 : L.drop (p + 2) = (le64 w.toNat ++ t).drop 2 := by rw [← List.drop_drop, h]
  have h3 : L.drop (p + 3) = (le64 w.toNat ++ t).drop 3 := by rw [← List.drop_drop, h]
  have h4 : L.drop (p + 4) = (le64 w.toNat ++ t).drop 4 := by rw [← List.drop_drop, h]
  have h5 : L.drop (p + 5) = (le64 w.toNat ++ t).drop 5 := by rw [← List.drop_drop, h]
  have h6 : L.drop (p + 6) = (le64 w.toNat ++ t).drop 6 := by rw [← List.drop_drop, h]
  have h7 : L.drop (p + 7) = (le64 w.toNat ++ t).drop 7 := by rw [← List.drop_drop, h]
  simp only [le64, le32, le16, List.cons_append, List.nil_append, List.drop_succ_cons, List.drop_zero] at h0 h1 h2 h3 h4 h5 h6 h7
  simp only [leAt, List.range_succ, List.range_zero, List.nil_append, List.cons_append, List.foldr_cons, List.foldr_nil,
    byteAt_of_drop h0, byteAt_of_drop h1, byteAt_of_drop h2, byteAt_of_drop h3, byteAt_of_drop h4, byteAt_of_drop h5,
    byteAt_of_drop h6, byteAt_of_drop h7]
  apply BitVec.eq_of_toNat_eq
  simp
  omega

/-- reading `l.length` consecutive `c`-byte records at `off, off + c, …` gives back the records written there -/
theorem read_flatMap {α β} (L : List UInt8) (f : α → Bytes) (c : Nat) (hc : ∀ a, (f a).length = c) (g : Nat → β) (h : α → β)
    (l : List α) (hg : ∀ a ∈ l, ∀ off t, L.drop off = f a ++ t → g off = h a) :
    ∀ off t, L.drop off = l.flatMap f ++ t → (List.range l.length).map (fun k => g (off + c * k)) = l.map h := by
  induction l with
  | nil => intro off t _; rfl
  | cons a l ih =>
    intro off t hd
    simp only [List.flatMap_cons, List.append_assoc] at hd
    have h0 := hg a (by simp) off _ hd
    have hd' : L.drop (off + c) = l.flatMap f ++ t := by
      rw [← List.drop_drop, hd, ← hc a]; simp
    have := ih (fun a ha => hg a (List.mem_cons_of_mem _ ha)) (off + c) t hd'
    simp only [List.length_cons, List.range_succ_eq_map, List.map_cons, List.map_map, Nat.mul_zero, Nat.add_zero, h0]
    congr 1
    rw [← this]
    apply List.map_congr_left
    intro k _
    simp only [Function.comp, Nat.mul_succ]
    congr 1; omega

def slotBits (P : FrozenParams) (s : Slot) : Bytes := match s.c with | .bmp _ ws => frozenBitmapBytes P ws | _ => []
def slotRuns (s : Slot) : Bytes := match s.c with | .run rs => rs.flatMap (fun (s, l) => le16 s ++ le16 l) | _ => []
def slotArrs (s : Slot) : Bytes := match s.c with | .arr vs => vs.flatMap le16 | _ => []

theorem freeze_eq (P : FrozenParams) (r : Rep) :
    r.freeze P = r.slots.flatMap (slotBits P) ++ (r.slots.flatMap slotRuns ++ (r.slots.flatMap slotArrs ++
      (r.slots.flatMap (fun s => le16 s.key) ++ (r.slots.flatMap (fun s => le16 s.c.frozenCount) ++
      (r.slots.map (fun s => UInt8.ofNat (s.c.frozenType P)) ++
        le32 ((P.cookie ||| (r.slots.length <<< 15)) % 4294967296)))))) := by
  simp only [Rep.freeze, List.flatMap_map, List.map_map, List.length_map, List.append_assoc]
  rfl

open RModel.Driver in
@[simp] theorem fp_typeBitmap : Driver.frozenParams.typeBitmap = 1 := rfl
@[simp] theorem fp_typeArray : Driver.frozenParams.typeArray = 2 := rfl
@[simp] theorem fp_typeRun : Driver.frozenParams.typeRun = 3 := rfl
@[simp] theorem fp_bitmapBytes : Driver.frozenParams.bitmapBytes = 8192 := rfl
@[simp] theorem fp_maxContainers : Driver.frozenParams.maxContainers = 65536 := rfl
@[simp] theorem fp_cookie : Driver.frozenParams.cookie = 13766 := by decide

def slotTally (t : Tally) (s : Slot) : Tally :=
  match s.c with
  | .bmp _ _ => { t with nBitmap := t.nBitmap + 1 }
  | .arr vs => { t with nArray := t.nArray + 1, nArrayEl := t.nArrayEl + vs.length }
  | .run rs => { t with nRun := t.nRun + 1, nRunEl := t.nRunEl + rs.length }

def tallyAdd (t : Tally) : List Slot → Tally
  | [] => t
  | s :: l => tallyAdd (slotTally t s) l

/-- what the table entries of container `i + j` must hold, for the containers `rest` stored from index `i` on -/
def tableOk (b : Array UInt8) (types counts : Win) (i : Nat) (rest : List Slot) : Prop :=
  ∀ j (h : j < rest.length), codeAt b types (i + j) = rest[j].c.frozenType Driver.frozenParams ∧
    codeAt b counts (i + j) = rest[j].c.frozenCount

theorem tableOk_tail {b : Array UInt8} {types counts : Win} {i : Nat} {s : Slot} {rest : List Slot}
    (h : tableOk b types counts i (s :: rest)) : tableOk b types counts (i + 1) rest := by
  intro j hj
  have := h (j + 1) (by simp; omega)
  simpa [Nat.add_assoc, Nat.add_comm 1 j] using this

theorem tally_freeze (b : Array UInt8) (types counts : Win) (rest : List Slot) :
    ∀ (i : Nat) (t : Tally), tableOk b types counts i rest → (∀ s ∈ rest, s.c.wf = true) →
      i + rest.length ≤ types.len → i + rest.length ≤ counts.len →
      tallyLoop Driver.frozenParams b types counts (List.range' i rest.length) t = .ok (tallyAdd t rest) := by
  induction rest with
  | nil => intro i t _ _ _ _; rfl
  | cons s rest ih =>
    intro i t htab hwf h1 h2
    have h0 := htab 0 (by simp)
    simp only [Nat.add_zero, List.getElem_cons_zero] at h0
    simp only [List.length_cons] at h1 h2
    have hrec := fun t' => ih (i + 1) t' (tableOk_tail htab) (fun s hs => hwf s (List.mem_cons_of_mem _ hs)) (by omega) (by omega)
    have hswf := hwf s (by simp)
    simp only [List.length_cons, List.range'_succ, tallyLoop, tallyStep_eq _ b types counts i t (by omega) (by omega),
      h0.1, h0.2, tallyAdd, slotTally]
    cases hc : s.c with
    | arr vals =>
      rw [hc] at hswf
      simp only [Cont.wf, Bool.and_eq_true, decide_eq_true_eq] at hswf
      have : t.nArrayEl + (((vals.length : Int) - 1) % 65536).toNat + 1 = t.nArrayEl + vals.length := by omega
      simp [Cont.frozenType, Cont.frozenCount, hrec, this]
    | bmp card ws => simp [Cont.frozenType, hrec]
    | run runs =>
      rw [hc] at hswf
      simp only [Cont.wf, Bool.and_eq_true, decide_eq_true_eq, runMinimal] at hswf
      have : runs.length % 65536 = runs.length := by omega
      simp [Cont.frozenType, Cont.frozenCount, hrec, this]

theorem slotBits_wf (s : Slot) (hwf : s.c.wf = true) :
    slotBits Driver.frozenParams s = match s.c with | .bmp _ ws => ws.flatMap (fun w => le64 w.toNat) | _ => [] := by
  cases hc : s.c with
  | arr vals => simp [slotBits, hc]
  | run runs => simp [slotBits, hc]
  | bmp card ws =>
    rw [hc] at hwf
    simp only [Cont.wf, Bool.and_eq_true, decide_eq_true_eq, beq_iff_eq] at hwf
    have : List.take 1024 ws = ws := by rw [← hwf.1.1]; exact List.take_length
    simp [slotBits, hc, frozenBitmapBytes, hwf.1.1, this]

theorem tallyAdd_lengths (rest : List Slot) : ∀ (t : Tally), (∀ s ∈ rest, s.c.wf = true) →
    8192 * t.nBitmap + (rest.flatMap (slotBits Driver.frozenParams)).length = 8192 * (tallyAdd t rest).nBitmap ∧
    4 * t.nRunEl + (rest.flatMap slotRuns).length = 4 * (tallyAdd t rest).nRunEl ∧
    2 * t.nArrayEl + (rest.flatMap slotArrs).length = 2 * (tallyAdd t rest).nArrayEl := by
  induction rest with
  | nil => intro t _; simp [tallyAdd]
  | cons s rest ih =>
    intro t hwf
    have := ih (slotTally t s) (fun s hs => hwf s (List.mem_cons_of_mem _ hs))
    have hb := frozenBitmapBytes_length Driver.frozenParams rfl
    simp only [List.flatMap_cons, List.length_append, tallyAdd]
    cases hc : s.c with
    | arr vals =>
      simp only [slotTally, slotBits, slotRuns, slotArrs, hc, List.length_nil, flatMap_length_const le16 2 le16_length] at this ⊢
      omega
    | bmp card ws =>
      simp only [slotTally, slotBits, slotRuns, slotArrs, hc, List.length_nil, hb, fp_bitmapBytes] at this ⊢
      omega
    | run runs =>
      simp only [slotTally, slotBits, slotRuns, slotArrs, hc, List.length_nil,
        flatMap_length_const (fun p : Nat × Nat => le16 p.1 ++ le16 p.2) 4 (fun _ => rfl)] at this ⊢
      omega

def readSlot (s : Slot) : Slot := { key := 0, c := s.c, flag := true }

theorem carve_freeze (L : List UInt8) (types counts : Win) (rest : List Slot) :
    ∀ (i : Nat) (a : Arenas) (X1 X2 X3 : List UInt8),
      tableOk L.toArray types counts i rest → (∀ s ∈ rest, s.c.wf = true) →
      i + rest.length ≤ types.len → i + rest.length ≤ counts.len →
      a.bitsets.elem = 8 → a.runs.elem = 4 → a.arrays.elem = 2 →
      L.drop a.bitsets.off = rest.flatMap (slotBits Driver.frozenParams) ++ X1 →
      8 * a.bitsets.len = (rest.flatMap (slotBits Driver.frozenParams)).length →
      L.drop a.runs.off = rest.flatMap slotRuns ++ X2 → 4 * a.runs.len = (rest.flatMap slotRuns).length →
      L.drop a.arrays.off = rest.flatMap slotArrs ++ X3 → 2 * a.arrays.len = (rest.flatMap slotArrs).length →
      ∃ a', carveLoop Driver.frozenParams L.toArray types counts (List.range' i rest.length) a =
        .ok (a', rest.map readSlot) := by
  induction rest with
  | nil => intro i a; intros; exact ⟨a, rfl⟩
  | cons s rest ih =>
    intro i a X1 X2 X3 htab hwf h1 h2 e8 e4 e2 dB lB dR lR dA lA
    have h0 := htab 0 (by simp)
    simp only [Nat.add_zero, List.getElem_cons_zero] at h0
    simp only [List.length_cons] at h1 h2
    have hswf := hwf s (by simp)
    have hwf' : ∀ s ∈ rest, s.c.wf = true := fun s hs => hwf s (List.mem_cons_of_mem _ hs)
    have et : leAt L.toArray (types.off + i * types.elem) types.elem = codeAt L.toArray types i := rfl
    have ec : leAt L.toArray (counts.off + i * counts.elem) counts.elem = codeAt L.toArray counts i := rfl
    simp only [List.flatMap_cons, List.append_assoc, List.length_append] at dB lB dR lR dA lA
    simp only [List.length_cons, List.range'_succ, carveLoop, carveStep, idx_ok _ types i (by omega), idx_ok _ counts i (by omega),
      Outcome.ok_bind, et, ec, h0.1, h0.2, List.map_cons]
    cases hc : s.c with
    | arr vals =>
      rw [hc] at hswf
      simp only [Cont.wf, Bool.and_eq_true, decide_eq_true_eq, List.all_eq_true] at hswf
      have hsz : (((vals.length : Int) - 1) % 65536).toNat + 1 = vals.length := by omega
      simp only [slotBits, slotRuns, slotArrs, hc, List.nil_append, List.length_nil, Nat.zero_add,
        flatMap_length_const le16 2 le16_length] at dB lB dR lR dA lA
      have hw : vals.length ≤ a.arrays.len := by omega
      simp only [Cont.frozenType, Cont.frozenCount, fp_typeArray, fp_typeBitmap, hsz, Nat.reduceBEq, Bool.false_eq_true, if_false, if_true,
        beq_self_eq_true]
      rw [sliceTo_ofNat _ _ hw, sliceFrom_ofNat _ _ hw]
      simp only [Outcome.ok_bind, Outcome.pure_eq]
      have hvals : Win.u16s L.toArray { a.arrays with len := vals.length } = vals := by
        have := read_flatMap L le16 2 le16_length (fun off => leAt L.toArray off 2) id vals
          (fun v hv off t hd => leAt2_of_drop hd (hswf.2 v hv)) a.arrays.off _ dA
        simpa [Win.u16s] using this
      rw [hvals]
      obtain ⟨a', he⟩ := ih (i + 1) { a with arrays := { a.arrays with off := a.arrays.off + vals.length * a.arrays.elem, len := a.arrays.len - vals.length }, iArray := a.iArray + 1 }
        X1 X2 X3 (tableOk_tail htab) hwf' (by omega) (by omega) e8 e4 e2 dB lB dR lR
        (by
          have := dA
          simp only [e2]
          rw [← List.drop_drop, dA, show vals.length * 2 = (vals.flatMap le16).length by
            rw [flatMap_length_const le16 2 le16_length]; omega]
          simp)
        (by simp only; omega)
      refine ⟨a', ?_⟩
      rw [he]
      simp [readSlot, hc]
    | bmp card ws =>
      have hsb := slotBits_wf s hswf
      rw [hc] at hswf
      simp only [Cont.wf, Bool.and_eq_true, decide_eq_true_eq, beq_iff_eq] at hswf
      have hpc := popcount_sum_le ws
      have hcard : (((card - 1) % 65536).toNat : Int) + 1 = card := by omega
      have hlw : (ws.flatMap fun w => le64 w.toNat).length = 8 * ws.length :=
        flatMap_length_const (fun w : BitVec 64 => le64 w.toNat) 8 (fun _ => rfl) ws
      simp only [hc] at hsb
      simp only [hsb, slotRuns, slotArrs, hc, List.nil_append, List.length_nil, Nat.zero_add, hlw] at dB lB dR lR dA lA
      have hw : Driver.frozenParams.bitmapBytes / 8 ≤ a.bitsets.len := by simp only [fp_bitmapBytes]; omega
      simp only [Cont.frozenType, Cont.frozenCount, fp_typeBitmap, beq_self_eq_true, if_true]
      rw [sliceTo_ofNat _ _ hw, sliceFrom_ofNat _ _ hw]
      simp only [Outcome.ok_bind, Outcome.pure_eq, fp_bitmapBytes, Nat.reduceDiv]
      have hwords : (List.range 1024).map (fun k => BitVec.ofNat 64 (leAt L.toArray (a.bitsets.off + 8 * k) 8)) = ws := by
        have := read_flatMap L (fun w : BitVec 64 => le64 w.toNat) 8 (fun _ => rfl)
          (fun off => BitVec.ofNat 64 (leAt L.toArray off 8)) id ws
          (fun w _ off t hd => leAt8_of_drop hd) a.bitsets.off _ dB
        simpa [hswf.1.1] using this
      rw [hwords, hcard]
      obtain ⟨a', he⟩ := ih (i + 1) { a with bitsets := { a.bitsets with off := a.bitsets.off + 1024 * a.bitsets.elem, len := a.bitsets.len - 1024 }, iBitset := a.iBitset + 1 }
        X1 X2 X3 (tableOk_tail htab) hwf' (by omega) (by omega) e8 e4 e2
        (by
          simp only [e8]
          rw [← List.drop_drop, dB, show 1024 * 8 = (ws.flatMap fun w => le64 w.toNat).length by rw [hlw]; omega]
          simp)
        (by simp only; omega) dR lR dA lA
      refine ⟨a', ?_⟩
      rw [he]
      simp [readSlot, hc]
    | run runs =>
      rw [hc] at hswf
      simp only [Cont.wf, Bool.and_eq_true, decide_eq_true_eq, runMinimal] at hswf
      have hb := runsOk_bound runs hswf.1.2
      have hcnt : runs.length % 65536 = runs.length := by omega
      have hlr : (runs.flatMap fun (p : Nat × Nat) => le16 p.1 ++ le16 p.2).length = 4 * runs.length :=
        flatMap_length_const (fun p : Nat × Nat => le16 p.1 ++ le16 p.2) 4 (fun _ => rfl) runs
      simp only [slotBits, slotRuns, slotArrs, hc, List.nil_append, List.length_nil, Nat.zero_add, hlr] at dB lB dR lR dA lA
      have hw : runs.length ≤ a.runs.len := by omega
      simp only [Cont.frozenType, Cont.frozenCount, fp_typeArray, fp_typeBitmap, fp_typeRun, hcnt, Nat.reduceBEq, Bool.false_eq_true, if_false,
        if_true, beq_self_eq_true]
      rw [sliceTo_ofNat _ _ hw, sliceFrom_ofNat _ _ hw]
      simp only [Outcome.ok_bind, Outcome.pure_eq]
      have hruns : (List.range runs.length).map (fun k => (leAt L.toArray (a.runs.off + 4 * k) 2, leAt L.toArray (a.runs.off + 4 * k + 2) 2)) = runs := by
        have := read_flatMap L (fun (p : Nat × Nat) => le16 p.1 ++ le16 p.2) 4 (fun _ => rfl)
          (fun off => (leAt L.toArray off 2, leAt L.toArray (off + 2) 2)) id runs
          (fun p hp off t hd => by
            have hpb := hb p hp
            have hd1 : L.drop off = le16 p.1 ++ (le16 p.2 ++ t) := by simpa using hd
            have hd2 : L.drop (off + 2) = le16 p.2 ++ t := by rw [← List.drop_drop, hd1]; rfl
            simp only [leAt2_of_drop hd1 (by omega), leAt2_of_drop hd2 (by omega), id])
          a.runs.off _ dR
        simpa using this
      rw [hruns]
      obtain ⟨a', he⟩ := ih (i + 1) { a with runs := { a.runs with off := a.runs.off + runs.length * a.runs.elem, len := a.runs.len - runs.length }, iRun := a.iRun + 1 }
        X1 X2 X3 (tableOk_tail htab) hwf' (by omega) (by omega) e8 e4 e2 dB lB
        (by
          simp only [e4]
          rw [← List.drop_drop, dR, show runs.length * 4 = (runs.flatMap fun (p : Nat × Nat) => le16 p.1 ++ le16 p.2).length by rw [hlr]; omega]
          simp)
        (by simp only; omega) dA lA
      refine ⟨a', ?_⟩
      rw [he]
      simp [readSlot, hc]

theorem byteAt_of_drop_append {L A X : List UInt8} {p : Nat} (h : L.drop p = A ++ X) (j : Nat) (hj : j < A.length) :
    byteAt L.toArray (p + j) = A[j].toNat := by
  have hd : L.drop (p + j) = A[j] :: (A ++ X).drop (j + 1) := by
    rw [← List.drop_drop, h]
    have : j < (A ++ X).length := by simp; omega
    rw [List.drop_eq_getElem_cons this, List.getElem_append_left hj]
  exact byteAt_of_drop hd

theorem rezip (slots : List Slot) :
    ((slots.map readSlot).zip (slots.map (·.key))).map (fun (s, k) => { s with key := k }) =
      slots.map fun s => { s with flag := true } := by
  induction slots with
  | nil => rfl
  | cons s t ih => simp only [List.map_cons, List.zip_cons_cons, ih]; rfl

theorem frozenCount_lt (c : Cont) : c.frozenCount < 65536 := by
  cases c <;> simp only [Cont.frozenCount] <;> omega

theorem drop_app {L a t : List UInt8} {p : Nat} (h : L.drop p = a ++ t) : L.drop (p + a.length) = t := by
  rw [← List.drop_drop, h]; simp

theorem cookie_or (n : Nat) : 13766 ||| (n <<< 15) = 13766 + n * 32768 := by
  have := Nat.two_pow_add_eq_or_of_lt (i := 15) (b := 13766) (by omega) n
  rw [Nat.shiftLeft_eq, Nat.or_comm, Nat.mul_comm, ← this]; omega

/-- **C13 round trip.**  `FrozenView(Freeze(x))` has exactly the keys and containers of `x`, every container flagged
copy-on-write and the copy-on-write switch on (`r.slots.length ≤ 65536` follows from well-formedness). -/
theorem frozenView_freeze (r : Rep) (hwf : r.wf = true) :
    frozenView Driver.frozenParams (r.freeze Driver.frozenParams) = .ok (Driver.frozenOf r) := by
  obtain ⟨hn, hkeys, hcwf⟩ := wf_slots r hwf
  generalize hLdef : r.freeze Driver.frozenParams = L
  have hL := hLdef.symm
  rw [freeze_eq, fp_cookie, cookie_or, Nat.mod_eq_of_lt (by omega)] at hL
  generalize hT : tallyAdd {} r.slots = T
  obtain ⟨lb, lr, la⟩ := tallyAdd_lengths r.slots {} hcwf
  rw [hT] at lb lr la
  simp only [Nat.mul_zero, Nat.zero_add] at lb lr la
  -- positions of the pieces
  have lk : (r.slots.flatMap fun s => le16 s.key).length = 2 * r.slots.length :=
    flatMap_length_const (fun s : Slot => le16 s.key) 2 (fun _ => rfl) r.slots
  have lc : (r.slots.flatMap fun s => le16 s.c.frozenCount).length = 2 * r.slots.length :=
    flatMap_length_const (fun s : Slot => le16 s.c.frozenCount) 2 (fun _ => rfl) r.slots
  have dB : L.drop 0 = _ := hL
  have dR := drop_app dB
  have dA := drop_app dR
  have dK := drop_app dA
  have dC := drop_app dK
  have dT := drop_app dC
  have dH := drop_app dT
  have hlen : L.length = 8192 * T.nBitmap + 4 * T.nRunEl + 2 * T.nArrayEl + 5 * r.slots.length + 4 := by
    rw [hL]; simp only [List.length_append, List.length_map, le32_length, lk, lc]; omega
  simp only [Nat.zero_add, List.length_map, lk, lc] at dR dA dK dC dT dH
  rw [← lb, ← lr, ← la] at hlen
  generalize hn' : r.slots.length = n at *
  generalize hrest : (r.slots.flatMap (slotBits Driver.frozenParams)).length + (r.slots.flatMap slotRuns).length + (r.slots.flatMap slotArrs).length = rest at *
  have hs : L.toArray.size = rest + 5 * n + 4 := by simpa using hlen
  obtain ⟨H, hH⟩ : ∃ H, H = 13766 + n * 32768 := ⟨_, rfl⟩
  rw [← hH] at dH
  have dH' : L.drop (rest + 2 * n + 2 * n + n) = le32 H ++ [] := by simpa using dH
  have b0 := byteAt_of_drop_append (A := le32 H) (X := []) dH' 0 (by rw [le32_length]; omega)
  have b1 := byteAt_of_drop_append (A := le32 H) (X := []) dH' 1 (by rw [le32_length]; omega)
  have b2 := byteAt_of_drop_append (A := le32 H) (X := []) dH' 2 (by rw [le32_length]; omega)
  have b3 := byteAt_of_drop_append (A := le32 H) (X := []) dH' 3 (by rw [le32_length]; omega)
  simp only [le32, le16, List.cons_append, List.nil_append, List.getElem_cons_zero, List.getElem_cons_succ, UInt8.toNat_ofNat'] at b0 b1 b2 b3
  have p4 : L.toArray.size - 4 = rest + 2 * n + 2 * n + n + 0 := by omega
  have p3 : L.toArray.size - 3 = rest + 2 * n + 2 * n + n + 1 := by omega
  have p2 : L.toArray.size - 2 = rest + 2 * n + 2 * n + n + 2 := by omega
  have p1 : L.toArray.size - 1 = rest + 2 * n + 2 * n + n + 3 := by omega
  have hw : hdrWord L.toArray = H := by
    simp only [hdrWord, p4, p3, p2, p1, b0, b1, b2, b3]; omega
  have hwBE : hdrWordBE L.toArray % 32768 ≠ 13766 := by
    simp only [hdrWordBE, p4, p3, p2, p1, b0, b1, b2, b3]
    have q1 : H / 65536 % 65536 / 256 % 256 % 256 ≤ 128 := by omega
    omega
  rw [hH] at hw
  have hdr : frozenHeader Driver.frozenParams L.toArray =
      .ok (⟨rest + 4 * n, n, 1⟩, ⟨rest + 2 * n, n, 2⟩, ⟨rest, n, 2⟩, ⟨0, rest, 1⟩) := by
    have e1 : (13766 + n * 32768) % 32768 = 13766 := by omega
    have e2 : (13766 + n * 32768) / 32768 = n := by omega
    have e3 : rest + 5 * n + 4 - 4 - 5 * n = rest := by omega
    rw [frozenHeader_eq]
    simp only [hs, hw, fp_cookie, fp_maxContainers, e1, e2, e3]
    rw [if_neg (by omega), if_neg (by simpa using hwBE), if_neg (by simp), if_neg (by omega), if_neg (by omega)]
  -- the type / count tables hold what the writer put there
  have htab : tableOk L.toArray ⟨rest + 4 * n, n, 1⟩ ⟨rest + 2 * n, n, 2⟩ 0 r.slots := by
    intro j hj
    rw [hn'] at hj
    constructor
    · have hj' : j < (r.slots.map fun s => UInt8.ofNat (Cont.frozenType Driver.frozenParams s.c)).length := by simp [hn', hj]
      have := byteAt_of_drop_append dT j hj'
      have l1 : ∀ off, leAt L.toArray off 1 = byteAt L.toArray off := by intro off; simp [leAt, List.range_succ]
      simp only [codeAt, l1, Nat.zero_add, Nat.mul_one]
      rw [show rest + 4 * n + j = rest + 2 * n + 2 * n + j by omega, this]
      simp only [List.getElem_map, UInt8.toNat_ofNat']
      cases r.slots[j].c <;> rfl
    · have := read_flatMap L (fun s : Slot => le16 s.c.frozenCount) 2 (fun _ => rfl)
        (fun off => leAt L.toArray off 2) (fun s => s.c.frozenCount) r.slots
        (fun s _ off t hd => leAt2_of_drop hd (frozenCount_lt s.c)) (rest + 2 * n) _ dC
      have := congrArg (fun l => l[j]?) this
      simp only [List.getElem?_map, hn', List.getElem?_range hj, Option.map_some, List.getElem?_eq_getElem (hn' ▸ hj)] at this
      simp only [codeAt, Nat.zero_add]
      rw [show rest + 2 * n + j * 2 = rest + 2 * n + 2 * j by omega]
      exact Option.some.inj this
  have htally := tally_freeze L.toArray ⟨rest + 4 * n, n, 1⟩ ⟨rest + 2 * n, n, 2⟩ r.slots 0 {} htab hcwf
    (by simp [hn']) (by simp [hn'])
  rw [hT, hn', ← List.range_eq_range'] at htally
  have hrest' : rest = 8192 * T.nBitmap + 4 * T.nRunEl + 2 * T.nArrayEl := by omega
  have harena : frozenArenas Driver.frozenParams ⟨0, rest, 1⟩ T =
      .ok { bitsets := ⟨0, 1024 * T.nBitmap, 8⟩, runs := ⟨0 + 8192 * T.nBitmap, T.nRunEl, 4⟩,
            arrays := ⟨0 + 8192 * T.nBitmap + 4 * T.nRunEl, T.nArrayEl, 2⟩ } := by
    rw [frozenArenas_eq _ rfl _ _ rfl]
    have c1 : ¬ rest < 8192 * T.nBitmap + 4 * T.nRunEl + 2 * T.nArrayEl := by omega
    have c2 : (rest != 8192 * T.nBitmap + 4 * T.nRunEl + 2 * T.nArrayEl) = false := by simp [hrest']
    simp only [fp_bitmapBytes, Nat.reduceDiv, c1, c2, ↓reduceIte, Bool.false_eq_true]
  have hidx : ∀ i ∈ List.range n, i < (⟨rest + 4 * n, n, 1⟩ : Win).len ∧ i < (⟨rest + 2 * n, n, 2⟩ : Win).len := by
    intro i hi; simpa using hi
  obtain ⟨a1, hcarve⟩ := carve_freeze L ⟨rest + 4 * n, n, 1⟩ ⟨rest + 2 * n, n, 2⟩ r.slots 0
    { bitsets := ⟨0, 1024 * T.nBitmap, 8⟩, runs := ⟨0 + 8192 * T.nBitmap, T.nRunEl, 4⟩,
      arrays := ⟨0 + 8192 * T.nBitmap + 4 * T.nRunEl, T.nArrayEl, 2⟩ } _ _ _ htab hcwf (by simp [hn']) (by simp [hn']) rfl rfl rfl
    dB (by simp only; omega) (by simp only [Nat.zero_add]; rw [← lb]; exact dR) (by simp only; omega)
    (by simp only [Nat.zero_add]; rw [← lb, ← lr]; exact dA) (by simp only; omega)
  rw [hn', ← List.range_eq_range'] at hcarve
  obtain ⟨a2, ss, hc2, r1, r2, r3, r4, r5, r6, _⟩ := carveLoop_ok Driver.frozenParams L.toArray _ _ (List.range n) {} T
    { bitsets := ⟨0, 1024 * T.nBitmap, 8⟩, runs := ⟨0 + 8192 * T.nBitmap, T.nRunEl, 4⟩,
      arrays := ⟨0 + 8192 * T.nBitmap + 4 * T.nRunEl, T.nArrayEl, 2⟩ } hidx htally (by simp) (by simp) (by simp)
  rw [hcarve] at hc2
  simp only [Outcome.ok.injEq, Prod.mk.injEq] at hc2
  obtain ⟨rfl, rfl⟩ := hc2
  simp only [Nat.add_zero, Nat.zero_add] at r4 r5 r6
  have hks : Win.u16s L.toArray ⟨rest, n, 2⟩ = r.slots.map (·.key) := by
    have := read_flatMap L (fun s : Slot => le16 s.key) 2 (fun _ => rfl)
      (fun off => leAt L.toArray off 2) (fun s => s.key) r.slots
      (fun s hs off t hd => leAt2_of_drop hd (hkeys s hs)) rest _ dK
    simpa [Win.u16s, hn'] using this
  unfold frozenView
  simp only [hdr, Outcome.ok_bind, htally, harena, hcarve, hks, r1, r2, r3, r4, r5, r6, rezip, List.length_map]
  simp [Driver.frozenOf]

/-- non-vacuity: a concrete bitmap/array/run representation is well formed and the three statements are observed on it;
and the hypothesis of `frozenView_no_panic` cannot be dropped (a parameter set with 12-byte "bitmap containers" makes the
cast to `[]uint64` panic) -/
example :
    let r : Rep := ⟨false, [⟨0, .arr [1, 5, 9], false⟩, ⟨3, .run [(10, 99)], false⟩, ⟨7, .arr [65535], true⟩]⟩
    r.wf = true ∧ (r.freeze Driver.frozenParams).length = r.frozenSize Driver.frozenParams ∧
      (frozenView Driver.frozenParams (r.freeze Driver.frozenParams) == .ok (Driver.frozenOf r)) = true ∧
      (frozenView { Driver.frozenParams with bitmapBytes := 12 }
        ([0,0,0,0,0,0,0,0,0,0,0,0, 0,0, 0,0, 1] ++ le32 (13766 + 32768)) == .panic) = true := by
  decide

end RModel.Impl
