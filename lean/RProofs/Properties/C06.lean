import RModel.Spec.FormatSpec
import RProofs.FormatLemmas
import RProofs.Properties.C05
/-!
Property C06 — the portable serialization conforms to the published format specification — as theorems relating
the L2 serializer/deserializer model (`Impl/Serial.lean`, tied byte for byte to the Go writer/reader by the `ser` /
`dec` correspondence lines) to the independent reading of the specification (`Spec/FormatSpec.lean`).

* `encode_conforms` (write direction): the bytes written for a well-formed bitmap decode, under the independent
  reading, to exactly the bitmap's elements, consuming the whole stream.
* `conformant_decodes` (read direction): every stream accepted by the independent reading is accepted by the reader
  and read as exactly the set it encodes, consuming the same number of bytes.
-/
namespace RModel.FormatSpec
open RModel RModel.Impl

/-! ### one container -/

theorem runsSorted_of_runsOk (runs : List (Nat × Nat)) (h : runsOk runs = true) : runsSorted runs = true := by
  fun_induction runsOk runs with
  | case1 s l => simpa [runsSorted] using h
  | case2 s l s' l' t ih =>
    simp only [Bool.and_eq_true, decide_eq_true_eq] at h
    simp only [runsSorted, Bool.and_eq_true, decide_eq_true_eq]
    exact ⟨by omega, ih h.2⟩
  | case3 => rfl

theorem runsOk_sum (runs : List (Nat × Nat)) (h : runsOk runs = true) :
    (runs.head?.map (·.1)).getD 0 + (runs.map fun (_, l) => l + 1).sum ≤ 65536 := by
  fun_induction runsOk runs with
  | case1 s l => simp at h ⊢; omega
  | case2 s l s' l' t ih =>
    simp only [Bool.and_eq_true, decide_eq_true_eq] at h
    have := ih h.2
    simp at this ⊢; omega
  | case3 => simp

/-- for a well-formed container, the descriptive-header field (cardinality − 1, 16 bits) denotes the true cardinality -/
theorem card_hdr (c : Cont) (hwf : c.wf = true) : ((c.goCard - 1) % 65536).toNat + 1 = c.card := by
  cases c with
  | arr vals =>
    simp only [Cont.wf, Bool.and_eq_true, decide_eq_true_eq] at hwf
    simp only [Cont.goCard, Cont.card]; omega
  | bmp card words =>
    simp only [Cont.wf, Bool.and_eq_true, decide_eq_true_eq, beq_iff_eq] at hwf
    have := popcount_sum_le words
    simp only [Cont.goCard, Cont.card]; omega
  | run runs =>
    simp only [Cont.wf, Bool.and_eq_true, decide_eq_true_eq, runMinimal] at hwf
    have := runsOk_sum runs hwf.1.2
    have e : (runs.map fun x => x.2 + 1) = runs.map fun (_, l) => l + 1 := rfl
    simp only [Cont.goCard, Cont.card]
    simp only [e] at hwf this ⊢; omega

theorem container_payload (b : Bytes) (c : Cont) (key p : Nat) (t : List UInt8) (hwf : c.wf = true)
    (hp : b.toList.drop p = c.payload ++ t) :
    container b c.isRun key c.card p = some (c.toBSet (key * 65536), p + c.payload.length) := by
  rw [payload_length]
  cases c with
  | arr vals =>
    simp only [Cont.wf, Bool.and_eq_true, decide_eq_true_eq, List.all_eq_true] at hwf
    obtain ⟨⟨⟨h0, h1⟩, hinc⟩, hv⟩ := hwf
    have hl : (vals.flatMap le16).length = 2 * vals.length := flatMap_length_const le16 2 le16_length vals
    simp only [Cont.payload] at hp
    simp only [container, Cont.isRun, Cont.card, Cont.toBSet, words16_eq, hp, takeN_append _ _ _ hl,
      strictlyIncreasing_eq]
    simp [h1, BSet.single, bytesTo16s_le16 vals hv, hinc, Cont.serSize]
  | bmp card words =>
    simp only [Cont.wf, Bool.and_eq_true, decide_eq_true_eq, beq_iff_eq] at hwf
    obtain ⟨⟨hlen, hc⟩, hgt⟩ := hwf
    have hl : (words.flatMap fun w => le64 w.toNat).length = 8192 := by
      rw [flatMap_length_const (fun w : BitVec 64 => le64 w.toNat) 8 (fun _ => rfl)]; omega
    have hgt' : ¬ (words.map popcount).sum ≤ 4096 := by omega
    simp only [Cont.payload] at hp
    simp only [container, Cont.isRun, Cont.card, Cont.toBSet, bitsetBounds, bytes8_eq, hp,
      takeN_append _ _ _ hl, Option.map_some, words_bits, wordsBits_count, edges_eq]
    simp [hgt', Cont.serSize, hlen]
  | run runs =>
    simp only [Cont.wf, Bool.and_eq_true, decide_eq_true_eq, runMinimal, Bool.not_eq_true', List.isEmpty_eq_false_iff] at hwf
    obtain ⟨⟨hne, hok⟩, hmin⟩ := hwf
    have hb := runsOk_bound runs hok
    have hlen : runs.length < 65536 := by omega
    have hl : (runs.flatMap fun (p : Nat × Nat) => le16 p.1 ++ le16 p.2).length = 2 * (2 * runs.length) := by
      rw [flatMap_length_const (fun p : Nat × Nat => le16 p.1 ++ le16 p.2) 4 (fun _ => rfl)]; omega
    have hpairs := pairs16_le16 Prod.fst Prod.snd runs (fun p hp => by have := hb p hp; omega)
    have hp2 : b.toList.drop (p + 2) = (runs.flatMap fun (p : Nat × Nat) => le16 p.1 ++ le16 p.2) ++ t := by
      rw [← drop_drop', hp]; simp [Cont.payload, le16]
    simp only [Cont.payload, List.append_assoc] at hp
    simp only [container, Cont.isRun, Cont.card, Cont.toBSet, u16_eq, words16_eq, hp, hp2,
      rd16_le16 _ hlen, takeN_append _ _ _ hl, Option.map_some, pairUp_eq, hpairs, Cont.serSize]
    have hne' : runs.length ≠ 0 := by simpa using hne
    simp [hne', runsSorted_of_runsOk runs hok]
    omega
/-! ### the container sequence, with the offset header and the run flags -/

theorem serSize_pos (c : Cont) (hwf : c.wf = true) : 0 < c.serSize := by
  have := Cont.wf_size c hwf
  cases c with
  | arr vals => simp only [Cont.wf, Bool.and_eq_true, decide_eq_true_eq] at hwf; simp only [Cont.serSize]; omega
  | bmp card words => simp only [Cont.wf, Bool.and_eq_true, decide_eq_true_eq, beq_iff_eq] at hwf; simp only [Cont.serSize]; omega
  | run runs => simp only [Cont.serSize]; omega

theorem offsetSize_eq (c : Cont) (hwf : c.wf = true) : c.offsetSize specParams = c.serSize := by
  cases c with
  | arr vals =>
    simp only [Cont.wf, Bool.and_eq_true, decide_eq_true_eq] at hwf
    have h : ¬ ((vals.length : Int) > (4096 : Nat)) := by omega
    simp only [Cont.offsetSize, Cont.goCard, Cont.serSize, specParams_arrayMax, h, if_false]; omega
  | bmp card words =>
    simp only [Cont.wf, Bool.and_eq_true, decide_eq_true_eq, beq_iff_eq] at hwf
    have h : card > (4096 : Nat) := by omega
    simp only [Cont.offsetSize, Cont.goCard, Cont.serSize, specParams_arrayMax, h, if_true]; omega
  | run runs => rfl

theorem drop_of_append {L a t : List UInt8} {p : Nat} (h : L.drop p = a ++ t) : L.drop (p + a.length) = t := by
  rw [← drop_drop', h]; simp

theorem containers_encode (b : Bytes) (runBits offs : Option Nat) (T : List UInt8) (hsz : b.size < 4294967296)
    (rest : List Slot) :
    ∀ (i p : Nat) (tail : List UInt8),
    (∀ s ∈ rest, s.c.wf = true) →
    (∀ j (h : j < rest.length), runFlag b runBits (i + j) = some rest[j].c.isRun) →
    (∀ o, offs = some o → b.toList.drop (o + 4 * i) = offsets specParams p (rest.map (·.c)) ++ T) →
    b.toList.drop p = rest.flatMap (·.c.payload) ++ tail →
    containers b runBits offs i (rest.map fun s => (s.key, s.c.card)) p =
      some (rest.map fun s => s.c.toBSet (s.key * 65536), p + (rest.flatMap (·.c.payload)).length) := by
  induction rest with
  | nil => intro i p tail _ _ _ _; simp [containers]
  | cons s t ih =>
    intro i p tail hwf hflag hoff hp
    have hswf := hwf s (by simp)
    have hf0 := hflag 0 (by simp)
    simp only [Nat.add_zero, List.getElem_cons_zero] at hf0
    simp only [List.flatMap_cons, List.append_assoc] at hp
    have hcont := container_payload b s.c s.key p _ hswf hp
    have hp' := drop_of_append hp
    have hplt : p < 4294967296 := by
      have hlen := congrArg List.length hp
      have := serSize_pos s.c hswf
      rw [← payload_length] at this
      simp only [List.length_drop, List.length_append, Array.length_toList] at hlen
      omega
    have hok : ∀ o, offs = some o → u32 b (o + 4 * i) = some p := by
      intro o ho
      have := hoff o ho
      simp only [List.map_cons, offsets, List.append_assoc] at this
      simp [u32_eq, this, rd32_le32 p hplt]
    have hrec := ih (i + 1) (p + s.c.payload.length) tail (fun s hs => hwf s (List.mem_cons_of_mem _ hs))
      (fun j hj => by
        have := hflag (j + 1) (by simp; omega)
        simpa [Nat.add_assoc, Nat.add_comm 1 j] using this)
      (fun o ho => by
        have := hoff o ho
        simp only [List.map_cons, offsets, List.append_assoc] at this
        have := drop_of_append this
        simp only [le32_length] at this
        rw [offsetSize_eq s.c hswf, ← payload_length] at this
        rw [← this]; congr 1)
      hp'
    simp only [List.map_cons, containers, hf0, hcont, hrec, List.flatMap_cons, List.length_append]
    cases offs with
    | none => simp [Nat.add_assoc]
    | some o => simp [Nat.add_assoc, hok o rfl]
/-! ### the whole stream: write direction -/

theorem sum_const4 (l : List Slot) : (l.map fun _ => 4).sum = 4 * l.length := by
  induction l <;> simp_all <;> omega

theorem encode_norun (r : Rep) (hr : r.hasRun = false) :
    r.encode specParams = le32 12346 ++ (le32 r.slots.length ++ (descBytes r.slots ++
      (offsets specParams (8 + 4 * r.slots.length + 4 * r.slots.length) (r.slots.map (·.c)) ++ r.slots.flatMap (·.c.payload)))) := by
  simp [Rep.encode, hr, descBytes, sum_const4]

theorem encode_run (r : Rep) (hr : r.hasRun = true) :
    r.encode specParams = le16 12347 ++ (le16 ((r.slots.length - 1) % 65536) ++ (runFlagBytes (r.slots.map (·.c.isRun)) ++
      (descBytes r.slots ++
      ((if r.slots.length ≥ 4 then offsets specParams (4 + (r.slots.length + 7) / 8 + 4 * r.slots.length + 4 * r.slots.length) (r.slots.map (·.c)) else []) ++ r.slots.flatMap (·.c.payload))))) := by
  have e : 2 + (2 + (r.slots.length + 7) / 8) = 4 + (r.slots.length + 7) / 8 := by omega
  simp [Rep.encode, hr, descBytes, sum_const4, e]

theorem u8_of_drop {b : Bytes} {p : Nat} {A X : List UInt8} (h : b.toList.drop p = A ++ X) (k : Nat) (hk : k < A.length) :
    u8 b (p + k) = some A[k].toNat := by
  rw [u8_eq, ← drop_drop', h]
  simp [List.head?_drop, List.getElem?_append_left hk, List.getElem?_eq_getElem hk]

theorem encode_size_lt (r : Rep) (hwf : r.wf = true) : (r.encode specParams).length < 4294967296 := by
  obtain ⟨hn, _, hcwf⟩ := wf_slots r hwf
  have h1 := headerSize_le r
  have h2 := (slots_size r.slots hcwf).2.1
  rw [encode_length r hwf, Rep.serializedSize]
  split at h1 <;> omega

theorem desc_pairs (slots : List Slot) (hkeys : ∀ s ∈ slots, s.key < 65536) (hwf : ∀ s ∈ slots, s.c.wf = true) :
    (pairUp (bytesTo16s (descBytes slots))).map (fun (k, c) => (k, c + 1)) = slots.map fun s => (s.key, s.c.card) := by
  have hkc : pairs16 (bytesTo16s (descBytes slots)) =
      slots.map fun s => (s.key, ((s.c.goCard - 1) % 65536).toNat) :=
    pairs16_le16 (fun s : Slot => s.key) (fun s => ((s.c.goCard - 1) % 65536).toNat) slots (fun s hs => by
      refine ⟨hkeys s hs, ?_⟩
      omega)
  rw [pairUp_eq, hkc, List.map_map]
  apply List.map_congr_left
  intro s hs
  simp [card_hdr s.c (hwf s hs)]

theorem desc_keys (slots : List Slot) (hkeys : ∀ s ∈ slots, s.key < 65536) :
    (pairUp (bytesTo16s (descBytes slots))).map (·.1) = slots.map (·.key) := by
  have hkc : pairs16 (bytesTo16s (descBytes slots)) =
      slots.map fun s => (s.key, ((s.c.goCard - 1) % 65536).toNat) :=
    pairs16_le16 (fun s : Slot => s.key) (fun s => ((s.c.goCard - 1) % 65536).toNat) slots (fun s hs => by
      refine ⟨hkeys s hs, ?_⟩
      omega)
  rw [pairUp_eq, hkc, List.map_map]
  rfl

/-- **C06, write direction.**  The bytes written by the library for a well-formed bitmap decode, under the independent
reading of the format specification, to exactly the bitmap's elements, consuming the whole stream. -/
theorem encode_conforms (r : Rep) (hwf : r.wf = true) :
    specDecode (r.encode specParams).toArray = some ⟨r.toBSet, (r.encode specParams).length⟩ := by
  obtain ⟨hn, hkeys, hcwf⟩ := wf_slots r hwf
  have hsz := encode_size_lt r hwf
  have hinc : strictInc (r.slots.map (·.key)) = true := by
    simp only [Rep.wf, Bool.and_eq_true] at hwf; exact hwf.1
  generalize hb : (r.encode specParams).toArray = b
  have hL : b.toList = r.encode specParams := by rw [← hb]
  have hbsz : b.size < 4294967296 := by rw [← Array.length_toList, hL]; exact hsz
  have hdl : (descBytes r.slots).length = 2 * (2 * r.slots.length) := by rw [descBytes, desc_length]; omega
  cases hr : r.hasRun
  · -- cookie 12346
    have d0 : b.toList.drop 0 = le32 12346 ++ (le32 r.slots.length ++ (descBytes r.slots ++
      (offsets specParams (8 + 4 * r.slots.length + 4 * r.slots.length) (r.slots.map (·.c)) ++ r.slots.flatMap (·.c.payload)))) := by
      rw [List.drop_zero, hL, encode_norun r hr]
    have d4 := drop_of_append d0
    have d8 := drop_of_append d4
    have dO := drop_of_append d8
    have dP := drop_of_append dO
    simp only [le32_length, Nat.zero_add, Nat.reduceAdd, offsets_length, List.length_map] at d4 d8 dO dP
    rw [show (descBytes r.slots).length = 4 * r.slots.length from desc_length r.slots] at dO dP
    have hck : cookieHeader b = some (r.slots.length, none, 8) := by
      simp [cookieHeader, u32_eq, d0, d4, rd32_le32 12346 (by omega), rd32_le32 r.slots.length (by omega)]
    have hcs := containers_encode b none (some (8 + 4 * r.slots.length)) _ hbsz r.slots 0 (8 + 4 * r.slots.length + 4 * r.slots.length) []
      hcwf (fun j hj => by simp [runFlag, hasRun_false_iff r hr]) (fun o ho => by
        simp only [Option.some.injEq] at ho; subst ho; simpa using dO) (by simpa using dP)
    simp only [specDecode, hck, words16_eq, d8, takeN_append _ _ _ hdl, Option.map_some, desc_keys r.slots hkeys,
      desc_pairs r.slots hkeys hcwf, strictlyIncreasing_eq, hinc]
    have hlen : (r.encode specParams).length = 8 + 4 * r.slots.length + 4 * r.slots.length + (r.slots.flatMap (·.c.payload)).length := by
      rw [encode_norun r hr]
      simp only [List.length_append, le32_length, offsets_length, List.length_map]
      rw [show (descBytes r.slots).length = 4 * r.slots.length from desc_length r.slots]; omega
    simp only [Option.isNone_none, Bool.true_or, if_true, hcs]
    rw [if_neg (by omega)]
    simp [hlen, Rep.toBSet]
  · -- cookie 12347, run-flag bitset
    have hpos : 1 ≤ r.slots.length := by
      cases hs : r.slots with
      | nil => simp [Rep.hasRun, hs] at hr
      | cons a t => simp
    have hc0 : ¬ (12347 + 65536 * ((r.slots.length - 1) % 65536) = 12346) := by omega
    have hc1 : (12347 + 65536 * ((r.slots.length - 1) % 65536)) % 65536 = 12347 := by omega
    have hc2 : (12347 + 65536 * ((r.slots.length - 1) % 65536)) / 65536 + 1 = r.slots.length := by omega
    have d0 : b.toList.drop 0 = le16 12347 ++ (le16 ((r.slots.length - 1) % 65536) ++ (runFlagBytes (r.slots.map (·.c.isRun)) ++
      (descBytes r.slots ++
      ((if r.slots.length ≥ 4 then offsets specParams (4 + (r.slots.length + 7) / 8 + 4 * r.slots.length + 4 * r.slots.length) (r.slots.map (·.c)) else []) ++ r.slots.flatMap (·.c.payload))))) := by
      rw [List.drop_zero, hL, encode_run r hr]
    have d2 := drop_of_append d0
    have d4 := drop_of_append d2
    have dD := drop_of_append d4
    have dO := drop_of_append dD
    simp only [le16_length, Nat.zero_add, Nat.reduceAdd, runFlagBytes_length, List.length_map] at d2 d4 dD dO
    rw [show (descBytes r.slots).length = 4 * r.slots.length from desc_length r.slots] at dO
    have hck : cookieHeader b = some (r.slots.length, some 4, 4 + (r.slots.length + 7) / 8) := by
      simp [cookieHeader, u32_eq, d0, rd32_le16_le16 12347 _ (by omega) (by omega : (r.slots.length - 1) % 65536 < 65536), hc0, hc1, hc2]
    have hflag : ∀ j (h : j < r.slots.length), runFlag b (some 4) (0 + j) = some r.slots[j].c.isRun := by
      intro j hj
      have hk : j / 8 < (runFlagBytes (r.slots.map (·.c.isRun))).length := by simp; omega
      have hbit := runFlag_bit (r.slots.map (·.c.isRun)) j (by simpa using hj)
      simp only [List.getD_eq_getElem?_getD, List.getElem?_eq_getElem hk, Option.getD_some, List.getElem_map] at hbit
      simp [runFlag, u8_of_drop d4 (j / 8) hk, hbit]
    by_cases h4 : r.slots.length ≥ 4
    · simp only [h4, if_true] at dO
      have dP := drop_of_append dO
      simp only [offsets_length, List.length_map] at dP
      have hcs := containers_encode b (some 4) (some (4 + (r.slots.length + 7) / 8 + 4 * r.slots.length)) _ hbsz r.slots 0
        (4 + (r.slots.length + 7) / 8 + 4 * r.slots.length + 4 * r.slots.length) []
        hcwf hflag (fun o ho => by
          simp only [Option.some.injEq] at ho; subst ho; simpa using dO) (by simpa using dP)
      have hlen : (r.encode specParams).length = 4 + (r.slots.length + 7) / 8 + 4 * r.slots.length + 4 * r.slots.length + (r.slots.flatMap (·.c.payload)).length := by
        rw [encode_run r hr]
        simp only [List.length_append, le16_length, runFlagBytes_length, h4, if_true, offsets_length, List.length_map]
        rw [show (descBytes r.slots).length = 4 * r.slots.length from desc_length r.slots]; omega
      simp only [specDecode, hck, words16_eq, dD, takeN_append _ _ _ hdl, Option.map_some, desc_keys r.slots hkeys,
        desc_pairs r.slots hkeys hcwf, strictlyIncreasing_eq, hinc]
      simp only [Option.isNone_some, Bool.false_or, h4, decide_true, if_true, hcs]
      rw [if_neg (by omega)]
      simp [hlen, Rep.toBSet]
    · simp only [h4, if_false, List.nil_append] at dO
      have hcs := containers_encode b (some 4) none [] hbsz r.slots 0
        (4 + (r.slots.length + 7) / 8 + 4 * r.slots.length) []
        hcwf hflag (fun o ho => by simp at ho) (by simpa using dO)
      have hlen : (r.encode specParams).length = 4 + (r.slots.length + 7) / 8 + 4 * r.slots.length + (r.slots.flatMap (·.c.payload)).length := by
        rw [encode_run r hr]
        simp only [List.length_append, le16_length, runFlagBytes_length, h4, if_false, List.length_nil, List.length_map]
        rw [show (descBytes r.slots).length = 4 * r.slots.length from desc_length r.slots]; omega
      simp only [specDecode, hck, words16_eq, dD, takeN_append _ _ _ hdl, Option.map_some, desc_keys r.slots hkeys,
        desc_pairs r.slots hkeys hcwf, strictlyIncreasing_eq, hinc]
      simp only [Option.isNone_some, Bool.false_or, h4, decide_false, Bool.false_eq_true, if_false, hcs]
      rw [if_neg (by omega)]
      simp [hlen, Rep.toBSet]
/-! ### read direction -/

theorem takeN_some {k : Nat} {l x t : List UInt8} (h : takeN k l = some (x, t)) :
    x = l.take k ∧ t = l.drop k ∧ k ≤ l.length := by
  unfold takeN at h
  split at h
  · simp only [Option.some.injEq, Prod.mk.injEq] at h; exact ⟨h.1.symm, h.2.symm, by assumption⟩
  · simp at h

theorem drop_len {L : List UInt8} {p k : Nat} (h : k ≤ (L.drop p).length) (hk : 0 < k) : p + k ≤ L.length := by
  simp only [List.length_drop] at h; omega

theorem u8_some {b : Bytes} {i v : Nat} (h : u8 b i = some v) :
    ∃ x : UInt8, b.toList[i]? = some x ∧ x.toNat = v ∧ i + 1 ≤ b.toList.length := by
  simp only [u8, Option.map_eq_some_iff] at h
  obtain ⟨x, hx, rfl⟩ := h
  refine ⟨x, by simpa using hx, rfl, ?_⟩
  have := (Array.getElem?_eq_some_iff.mp hx).1
  simp only [Array.length_toList]; omega

theorem u16_some {b : Bytes} {i v : Nat} (h : u16 b i = some v) :
    rd16 (b.toList.drop i) = some (v, b.toList.drop (i + 2)) ∧ i + 2 ≤ b.toList.length := by
  rw [u16_eq] at h
  have e : b.toList.drop (i + 2) = (b.toList.drop i).drop 2 := by simp [List.drop_drop]
  have hl : (b.toList.drop i).length = b.toList.length - i := by simp
  rw [e]
  rcases hd : b.toList.drop i with _ | ⟨x, _ | ⟨y, t⟩⟩ <;> rw [hd] at h hl <;> simp [rd16] at h hl ⊢
  exact ⟨h, by omega⟩

theorem u32_some {b : Bytes} {i v : Nat} (h : u32 b i = some v) :
    rd32 (b.toList.drop i) = some (v, b.toList.drop (i + 4)) ∧ i + 4 ≤ b.toList.length := by
  rw [u32_eq] at h
  have e : b.toList.drop (i + 4) = (b.toList.drop i).drop 4 := by simp [List.drop_drop]
  have hl : (b.toList.drop i).length = b.toList.length - i := by simp
  rw [e]
  rcases hd : b.toList.drop i with _ | ⟨x, _ | ⟨y, _ | ⟨z, _ | ⟨w, t⟩⟩⟩⟩ <;> rw [hd] at h hl <;> simp [rd32] at h hl ⊢
  exact ⟨h, by omega⟩

theorem words16_some {b : Bytes} {i n : Nat} {ws : List Nat} (h : words16 b i n = some ws) :
    ∃ x, takeN (2 * n) (b.toList.drop i) = some (x, b.toList.drop (i + 2 * n)) ∧ bytesTo16s x = ws ∧
      (0 < n → i + 2 * n ≤ b.toList.length) := by
  rw [words16_eq] at h
  cases ht : takeN (2 * n) (b.toList.drop i) with
  | none => simp [ht] at h
  | some q =>
    obtain ⟨x, t⟩ := q
    obtain ⟨_, h2, h3⟩ := takeN_some ht
    simp only [ht, Option.map_some, Option.some.injEq] at h
    refine ⟨x, by rw [h2, List.drop_drop], h, fun hn => drop_len h3 (by omega)⟩

theorem bytes8_some {b : Bytes} {i n : Nat} {ws : List Nat} (h : bytes8 b i n = some ws) :
    ∃ x, takeN n (b.toList.drop i) = some (x, b.toList.drop (i + n)) ∧ x.map (·.toNat) = ws ∧
      (0 < n → i + n ≤ b.toList.length) := by
  rw [bytes8_eq] at h
  cases ht : takeN n (b.toList.drop i) with
  | none => simp [ht] at h
  | some q =>
    obtain ⟨x, t⟩ := q
    obtain ⟨_, h2, h3⟩ := takeN_some ht
    simp only [ht, Option.map_some, Option.some.injEq] at h
    refine ⟨x, by rw [h2, List.drop_drop], h, fun hn => drop_len h3 hn⟩
theorem le64_word (b0 b1 b2 b3 b4 b5 b6 b7 : UInt8) :
    le64 (BitVec.ofNat 64 (b0.toNat + 256 * (b1.toNat + 256 * (b2.toNat + 256 * (b3.toNat + 256 *
        (b4.toNat + 256 * (b5.toNat + 256 * (b6.toNat + 256 * b7.toNat)))))))).toNat = [b0, b1, b2, b3, b4, b5, b6, b7] := by
  have h0 := b0.toNat_lt; have h1 := b1.toNat_lt; have h2 := b2.toNat_lt; have h3 := b3.toNat_lt
  have h4 := b4.toNat_lt; have h5 := b5.toNat_lt; have h6 := b6.toNat_lt; have h7 := b7.toNat_lt
  simp only [le64, le32, le16, BitVec.toNat_ofNat, List.cons_append, List.nil_append, List.cons.injEq, and_true]
  refine ⟨?_, ?_, ?_, ?_, ?_, ?_, ?_, ?_⟩ <;> apply UInt8.toNat_inj.mp <;> simp only [UInt8.toNat_ofNat'] <;> omega

theorem le64_bytesToWords : ∀ (n : Nat) (p : List UInt8), p.length = 8 * n →
    (bytesToWords p).flatMap (fun w => le64 w.toNat) = p
  | 0, p, h => by
    have : p = [] := List.eq_nil_of_length_eq_zero (by omega)
    subst this; rfl
  | n + 1, p, h => by
    match p, h with
    | b0 :: b1 :: b2 :: b3 :: b4 :: b5 :: b6 :: b7 :: t, h =>
      have ht : t.length = 8 * n := by simp at h; omega
      simp only [bytesToWords, List.flatMap_cons, le64_word, le64_bytesToWords n t ht]
      rfl

theorem container_decodes {b : Bytes} {isRun : Bool} {key cm1 p : Nat} {s : BSet} {p' : Nat}
    (h : container b isRun key (cm1 + 1) p = some (s, p')) :
    ∃ c, readOne specParams isRun cm1 (b.toList.drop p) = some (c, b.toList.drop p') ∧
      c.toBSet (key * 65536) = s ∧ p' ≤ b.toList.length ∧ p ≤ p' := by
  unfold container at h
  cases isRun with
  | true =>
    simp only [if_true] at h
    cases h16 : u16 b p with
    | none => simp [h16] at h
    | some nr =>
      obtain ⟨hrd, hlen⟩ := u16_some h16
      simp only [h16] at h
      cases hw : words16 b (p + 2) (2 * nr) with
      | none => simp [hw] at h
      | some ws =>
        obtain ⟨x, htk, hx, hle⟩ := words16_some hw
        simp only [hw] at h
        split at h
        · simp at h
        split at h
        · simp at h
        split at h
        · simp at h
        simp only [Option.some.injEq, Prod.mk.injEq] at h
        obtain ⟨hs, hp'⟩ := h
        refine ⟨.run (pairs16 (bytesTo16s x)), ?_, ?_, ?_, by omega⟩
        · have e : nr * 4 = 2 * (2 * nr) := by omega
          have e2 : p + 2 + 2 * (2 * nr) = p' := by omega
          simp only [readOne, if_true, hrd, e, htk, Option.map_some, e2]
        · rw [← hs, hx, pairUp_eq]; rfl
        · by_cases h0 : nr = 0
          · omega
          · have := hle (by omega); omega
  | false =>
    simp only [Bool.false_eq_true, if_false] at h
    by_cases hc : cm1 + 1 ≤ 4096
    · simp only [hc, if_true] at h
      cases hw : words16 b p (cm1 + 1) with
      | none => simp [hw] at h
      | some vs =>
        obtain ⟨x, htk, hx, hle⟩ := words16_some hw
        simp only [hw] at h
        split at h
        · simp at h
        simp only [Option.some.injEq, Prod.mk.injEq] at h
        obtain ⟨hs, hp'⟩ := h
        refine ⟨.arr (bytesTo16s x), ?_, ?_, ?_, by omega⟩
        · have e : (cm1 + 1) * 2 = 2 * (cm1 + 1) := by omega
          have hc' : ¬ (cm1 + 1 > specParams.arrayMax) := by simp; omega
          simp only [readOne, Bool.false_eq_true, if_false, hc', e, htk, Option.map_some, hp']
        · rw [← hs, hx]; rfl
        · have := hle (by omega); omega
    · simp only [hc, if_false] at h
      cases hbb : bitsetBounds b p (key * 65536) with
      | none => simp [hbb] at h
      | some q =>
        obtain ⟨s', cnt⟩ := q
        simp only [hbb] at h
        split at h
        · simp at h
        simp only [Option.some.injEq, Prod.mk.injEq] at h
        obtain ⟨hs, hp'⟩ := h
        unfold bitsetBounds at hbb
        cases h8 : bytes8 b p 8192 with
        | none => simp [h8] at hbb
        | some bytes =>
          obtain ⟨x, htk, hx, hle⟩ := bytes8_some h8
          simp only [h8, Option.some.injEq, Prod.mk.injEq] at hbb
          have hxl : x.length = 8 * 1024 := by
            obtain ⟨hx1, _, hx3⟩ := takeN_some htk
            rw [hx1, List.length_take]; omega
          refine ⟨.bmp ((cm1 + 1 : Nat) : Int) (bytesToWords x), ?_, ?_, ?_, by omega⟩
          · have hc' : cm1 + 1 > 4096 := by omega
            simp only [readOne, Bool.false_eq_true, if_false, specParams_arrayMax, Nat.reduceMul, htk,
              Option.map_some, hp', hc', if_true]
          · rw [← hs, ← hbb.1, ← hx, edges_eq]
            simp only [Cont.toBSet]
            rw [← words_bits, le64_bytesToWords 1024 x hxl]
          · have := hle (by omega); omega

theorem containers_decodes (b : Bytes) (flag : Bool) (runBits offs : Option Nat) (isRun : Option Impl.Bytes)
    (desc : List (Nat × Nat)) :
    ∀ (i p : Nat) (sets : List BSet) (q : Nat),
      (∀ j, j < desc.length → ∀ x, runFlag b runBits (i + j) = some x → runBitAt isRun (i + j) = x) →
      containers b runBits offs i (desc.map fun (k, c) => (k, c + 1)) p = some (sets, q) →
      (desc = [] → p ≤ b.toList.length) →
      ∃ slots, readContainers specParams flag isRun i desc (b.toList.drop p) = some (slots, b.toList.drop q) ∧
        slots.map (fun s => s.c.toBSet (s.key * 65536)) = sets ∧ q ≤ b.toList.length ∧ p ≤ q := by
  induction desc with
  | nil =>
    intro i p sets q _ h hp
    simp only [List.map_nil, containers, Option.some.injEq, Prod.mk.injEq] at h
    obtain ⟨rfl, rfl⟩ := h
    exact ⟨[], by simp [readContainers_nil], rfl, hp rfl, Nat.le_refl _⟩
  | cons d desc ih =>
    intro i p sets q hbits h hp
    obtain ⟨key, cm1⟩ := d
    simp only [List.map_cons, containers] at h
    cases hrf : runFlag b runBits i with
    | none => simp [hrf] at h
    | some isR =>
      have hbit := hbits 0 (by simp) isR (by simpa using hrf)
      simp only [Nat.add_zero] at hbit
      simp only [hrf] at h
      simp at h
      replace h := h.2
      cases hcont : container b isR key (cm1 + 1) p with
      | none => simp [hcont] at h
      | some r =>
        obtain ⟨s, p'⟩ := r
        obtain ⟨c, hro, hset, hp', hpp'⟩ := container_decodes hcont
        simp only [hcont] at h
        cases hrest : containers b runBits offs (i + 1) (List.map (fun x => (x.fst, x.snd + 1)) desc) p' with
        | none => simp [hrest] at h
        | some r2 =>
          obtain ⟨ss, q'⟩ := r2
          simp only [hrest, Option.some.injEq, Prod.mk.injEq] at h
          obtain ⟨rfl, rfl⟩ := h
          obtain ⟨slots, hrc, hsets, hq, hpq⟩ := ih (i + 1) p' ss q' (fun j hj x hx => by
            have := hbits (j + 1) (by simp; omega) x (by simpa [Nat.add_assoc, Nat.add_comm 1 j] using hx)
            simpa [Nat.add_assoc, Nat.add_comm 1 j] using this) hrest (fun _ => hp')
          refine ⟨{ key := key, c := c, flag := flag } :: slots, ?_, by simp [hset, hsets], hq, by omega⟩
          rw [readContainers_cons, hbit, hro]
          simp only [hrc]

theorem bytesTo16s_length : ∀ (n : Nat) (l : List UInt8), l.length = 2 * n → (bytesTo16s l).length = n
  | 0, l, h => by have : l = [] := List.eq_nil_of_length_eq_zero (by omega); subst this; rfl
  | n + 1, a :: b :: t, h => by
    have : t.length = 2 * n := by simp at h; omega
    simp [bytesTo16s, bytesTo16s_length n t this]

theorem pairs16_length : ∀ (n : Nat) (l : List Nat), l.length = 2 * n → (pairs16 l).length = n
  | 0, l, h => by have : l = [] := List.eq_nil_of_length_eq_zero (by omega); subst this; rfl
  | n + 1, a :: b :: t, h => by
    have : t.length = 2 * n := by simp at h; omega
    simp [pairs16, pairs16_length n t this]

/-- `specDecode` after the cookie header -/
def specTail (b : Bytes) (n : Nat) (runBits : Option Nat) (pos : Nat) : Option Decoded :=
  if n > 65536 then none else
  match words16 b pos (2 * n) with
  | none => none
  | some hdr =>
    let desc := pairUp hdr
    if !strictlyIncreasing (desc.map (·.1)) then none else
    let pos := pos + 4 * n
    let hasOffsets := runBits.isNone || n ≥ 4
    let offs := if hasOffsets then some pos else none
    let p := if hasOffsets then pos + 4 * n else pos
    match containers b runBits offs 0 (desc.map fun (k, c) => (k, c + 1)) p with
    | none => none
    | some (sets, q) => some { set := Driver.unionAll sets, consumed := q }

theorem specDecode_eq (b : Bytes) :
    specDecode b = match cookieHeader b with
      | none => none
      | some (n, runBits, pos) => specTail b n runBits pos := rfl

theorem tail_decodes (b : Bytes) (flag : Bool) (n pos : Nat) (runBits : Option Nat) (isRun : Option Impl.Bytes)
    (d : Decoded)
    (hbits : ∀ j, j < n → ∀ x, runFlag b runBits j = some x → runBitAt isRun j = x)
    (hiso : isRun.isNone = runBits.isNone) (hpos : pos ≤ b.toList.length)
    (h : specTail b n runBits pos = some d) :
    ∃ r, decodeTail specParams flag b.toList.length n isRun (b.toList.drop pos) = .ok (r, d.consumed) ∧
      r.toBSet = d.set := by
  unfold specTail at h
  by_cases hn : n > 65536
  · simp [hn] at h
  simp only [hn, if_false] at h
  cases hw : words16 b pos (2 * n) with
  | none => simp [hw] at h
  | some hdr =>
    obtain ⟨kc, htk, hkc, hle⟩ := words16_some hw
    simp only [hw] at h
    split at h
    · simp at h
    rename_i hinc
    obtain ⟨hkc1, _, hkc3⟩ := takeN_some htk
    have hkl : kc.length = 2 * (2 * n) := by rw [hkc1, List.length_take]; omega
    have hdl : (pairs16 (bytesTo16s kc)).length = n :=
      pairs16_length n _ (bytesTo16s_length (2 * n) kc hkl)
    have e4 : 4 * n = 2 * (2 * n) := by omega
    rw [← hkc, pairUp_eq] at h
    -- the containers
    have hp4 : pos + 4 * n ≤ b.toList.length := by
      by_cases h0 : n = 0
      · subst h0; omega
      · have := hle (by omega); omega
    split at h
    · simp at h
    rename_i sets q hcs
    simp only [Option.some.injEq] at h
    subst h
    obtain ⟨slots, hrc, hsets, hq, hpq⟩ := containers_decodes b flag runBits _ isRun (pairs16 (bytesTo16s kc)) 0 _ sets q
      (fun j hj x hx => by
        have := hbits j (by omega) x (by simpa using hx)
        simpa using this) hcs
      (fun hnil => by
        have : n = 0 := by rw [← hdl, hnil]; rfl
        subst this; split <;> omega)
    refine ⟨{ cow := false, slots := slots }, ?_, by simp [Rep.toBSet, hsets]⟩
    unfold decodeTail
    rw [if_neg hn, e4, htk]
    simp only
    by_cases hoff : (runBits.isNone || decide (n ≥ 4)) = true
    · have cond : (isRun.isNone || decide (n ≥ specParams.noOffsetThreshold)) = true := by rw [hiso]; exact hoff
      simp only [hoff, if_true] at hrc hpq
      have htk2 : takeN (4 * n) (b.toList.drop (pos + 2 * (2 * n))) =
          some ((b.toList.drop (pos + 2 * (2 * n))).take (4 * n), b.toList.drop (pos + 4 * n + 4 * n)) := by
        unfold takeN
        rw [if_pos (by simp only [List.length_drop]; omega)]
        simp only [List.drop_drop]
        congr 3; omega
      have hsk : decodeSkip specParams n isRun (b.toList.drop (pos + 2 * (2 * n))) = some (b.toList.drop (pos + 4 * n + 4 * n)) := by
        unfold decodeSkip; rw [if_pos cond, htk2]; rfl
      simp only [hsk, hrc]
      simp only [List.length_drop]
      congr 2; omega
    · have cond : ¬ (isRun.isNone || decide (n ≥ specParams.noOffsetThreshold)) = true := by rw [hiso]; exact hoff
      simp only [hoff, if_false, Bool.false_eq_true] at hrc hpq
      have hsk : decodeSkip specParams n isRun (b.toList.drop (pos + 2 * (2 * n))) = some (b.toList.drop (pos + 4 * n)) := by
        unfold decodeSkip; rw [if_neg cond]; congr 2; omega
      simp only [hsk, hrc]
      simp only [List.length_drop]
      congr 2; omega

theorem specTail_some_words {b : Bytes} {n pos : Nat} {rb : Option Nat} {d : Decoded}
    (h : specTail b n rb pos = some d) (hn : 0 < n) : pos + 4 * n ≤ b.toList.length := by
  unfold specTail at h
  split at h
  · simp at h
  cases hw : words16 b pos (2 * n) with
  | none => simp [hw] at h
  | some hdr =>
    obtain ⟨_, _, _, hle⟩ := words16_some hw
    have := hle (by omega); omega

/-- **C06, read direction.**  Every stream the independent reading of the specification accepts — whatever legal
choices its encoder made — is accepted by the reader (either entry point: `flag` = zero-copy or not) and read as
exactly the set it encodes, consuming exactly the bytes of the stream. -/
theorem conformant_decodes (flag : Bool) (bs : Bytes) (d : Decoded) (h : specDecode bs = some d) :
    ∃ r n, decode specParams flag bs.toList = .ok (r, n) ∧ r.toBSet = d.set ∧ n = d.consumed := by
  rw [specDecode_eq] at h
  cases hck : cookieHeader bs with
  | none => simp [hck] at h
  | some hdr =>
    obtain ⟨n, runBits, pos⟩ := hdr
    simp only [hck] at h
    unfold cookieHeader at hck
    cases hc : u32 bs 0 with
    | none => simp [hc] at hck
    | some cookie =>
      obtain ⟨hrd, hl4⟩ := u32_some hc
      simp only [List.drop_zero, Nat.zero_add] at hrd hl4
      simp only [hc] at hck
      rw [decode_eq, hrd]
      simp only
      by_cases c1 : (cookie == 12346) = true
      · -- cookie 12346: explicit container count, no run containers
        simp only [c1, if_true] at hck
        cases hsz : u32 bs 4 with
        | none => simp [hsz] at hck
        | some n' =>
          obtain ⟨hrd2, hl8⟩ := u32_some hsz
          simp only [hsz, Option.some.injEq, Prod.mk.injEq] at hck
          obtain ⟨rfl, rfl, rfl⟩ := hck
          have hc' : cookie = 12346 := by simpa using c1
          have hdh : decodeHdr specParams cookie (bs.toList.drop 4) = some (n', none, bs.toList.drop 8) := by
            subst hc'
            simp [decodeHdr, hrd2]
          obtain ⟨r, hr, hset⟩ := tail_decodes bs flag n' 8 none none d
            (fun j _ x hx => by simp [runFlag] at hx; simp [runBitAt, ← hx]) rfl hl8 h
          rw [hdh]
          exact ⟨r, d.consumed, hr, hset, rfl⟩
      · simp only [c1, if_false, Bool.false_eq_true] at hck
        by_cases c2 : (cookie % 65536 == 12347) = true
        · -- cookie 12347: run-flag bitset
          simp only [c2, if_true, Option.some.injEq, Prod.mk.injEq] at hck
          obtain ⟨hn, rfl, hpos⟩ := hck
          have hn1 : 0 < n := by omega
          have hw := specTail_some_words h hn1
          have hk : (n + 7) / 8 ≤ (bs.toList.drop 4).length := by simp only [List.length_drop]; omega
          have hdh : decodeHdr specParams cookie (bs.toList.drop 4) =
              some (n, some ((bs.toList.drop 4).take ((n + 7) / 8)), bs.toList.drop pos) := by
            have c2' : (cookie % 65536 == specParams.serialCookie) = true := c2
            unfold decodeHdr
            rw [if_pos c2']
            rw [hn] at hpos
            simp only [hn, takeN, hk, if_true, Option.map_some, List.drop_drop, hpos]
          obtain ⟨r, hr, hset⟩ := tail_decodes bs flag n pos (some 4) (some ((bs.toList.drop 4).take ((n + 7) / 8))) d
            (fun j hj x hx => by
              simp only [runFlag] at hx
              cases h8 : u8 bs (4 + j / 8) with
              | none => simp [h8] at hx
              | some byte =>
                obtain ⟨y, hy, hyb, _⟩ := u8_some h8
                simp only [h8, Option.some.injEq] at hx
                have hjk : j / 8 < (n + 7) / 8 := by omega
                have : ((bs.toList.drop 4).take ((n + 7) / 8))[j / 8]? = some y := by
                  rw [List.getElem?_take_of_lt hjk, List.getElem?_drop, hy]
                simp only [runBitAt, List.getD_eq_getElem?_getD, this, Option.getD_some, hyb, hx])
            rfl (by omega) h
          rw [hdh]
          exact ⟨r, d.consumed, hr, hset, rfl⟩
        · simp [c2] at hck

/-- non-vacuity: the hypothesis of `conformant_decodes` is met (by the encoding of a concrete well-formed
array/run/array representation, through `encode_conforms`), so both directions have instances -/
example : ∃ bs d, specDecode bs = some d ∧ d.consumed = 31 :=
  let r : Rep := ⟨false, [⟨0, .arr [1, 5, 9], false⟩, ⟨3, .run [(10, 99)], false⟩, ⟨7, .arr [65535], true⟩]⟩
  ⟨_, _, encode_conforms r (by decide), by decide⟩

end RModel.FormatSpec
