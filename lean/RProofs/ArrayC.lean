import RModel.Impl.ArrayC
/-!
The sorted-array kernels compute the set operations: for strictly increasing inputs the output is strictly
increasing (hence a valid array container payload) and has exactly the members of the mathematical result.
-/
namespace RModel.ArrayC

abbrev Sorted (l : List Nat) : Prop := l.Pairwise (· < ·)

theorem mem_union2by2 (a b : List Nat) (x : Nat) : x ∈ union2by2 a b ↔ x ∈ a ∨ x ∈ b := by
  fun_induction union2by2 a b <;> simp_all <;> grind

theorem sorted_union2by2 (a b : List Nat) (ha : Sorted a) (hb : Sorted b) : Sorted (union2by2 a b) := by
  fun_induction union2by2 a b <;> simp_all [mem_union2by2] <;> grind

theorem mem_intersection2by2 (a b : List Nat) (ha : Sorted a) (hb : Sorted b) (x : Nat) :
    x ∈ intersection2by2 a b ↔ x ∈ a ∧ x ∈ b := by
  fun_induction intersection2by2 a b <;> simp_all <;> grind

theorem subset_intersection2by2 (a b : List Nat) (x : Nat) (h : x ∈ intersection2by2 a b) : x ∈ a := by
  fun_induction intersection2by2 a b <;> simp_all <;> grind

theorem sorted_intersection2by2 (a b : List Nat) (ha : Sorted a) (hb : Sorted b) :
    Sorted (intersection2by2 a b) := by
  fun_induction intersection2by2 a b
  · simp
  · simp
  · simp_all
  · simp_all
    intro z hz
    have := subset_intersection2by2 _ _ _ hz
    grind
  · simp_all

theorem mem_difference (a b : List Nat) (ha : Sorted a) (hb : Sorted b) (x : Nat) :
    x ∈ difference a b ↔ x ∈ a ∧ x ∉ b := by
  fun_induction difference a b <;> simp_all <;> grind

theorem subset_difference (a b : List Nat) (x : Nat) (h : x ∈ difference a b) : x ∈ a := by
  fun_induction difference a b <;> simp_all <;> grind

theorem sorted_difference (a b : List Nat) (ha : Sorted a) (hb : Sorted b) : Sorted (difference a b) := by
  fun_induction difference a b
  · simp
  · simp_all
  · simp_all
    intro z hz
    have := subset_difference _ _ _ hz
    grind
  · simp_all
  · simp_all

theorem mem_exclusiveUnion2by2 (a b : List Nat) (ha : Sorted a) (hb : Sorted b) (x : Nat) :
    x ∈ exclusiveUnion2by2 a b ↔ (x ∈ a ∧ x ∉ b) ∨ (x ∈ b ∧ x ∉ a) := by
  fun_induction exclusiveUnion2by2 a b <;> simp_all <;> grind

theorem subset_exclusiveUnion2by2 (a b : List Nat) (x : Nat) (h : x ∈ exclusiveUnion2by2 a b) : x ∈ a ∨ x ∈ b := by
  fun_induction exclusiveUnion2by2 a b <;> simp_all <;> grind

theorem sorted_exclusiveUnion2by2 (a b : List Nat) (ha : Sorted a) (hb : Sorted b) :
    Sorted (exclusiveUnion2by2 a b) := by
  fun_induction exclusiveUnion2by2 a b
  · simpa using hb
  · simpa using ha
  · simp_all
    intro z hz
    have := subset_exclusiveUnion2by2 _ _ _ hz
    grind
  · simp_all
  · simp_all
    intro z hz
    have := subset_exclusiveUnion2by2 _ _ _ hz
    grind

theorem intersects2by2_iff (a b : List Nat) (ha : Sorted a) (hb : Sorted b) :
    intersects2by2 a b = true ↔ ∃ x, x ∈ a ∧ x ∈ b := by
  fun_induction intersects2by2 a b <;> simp_all <;> grind

/-- cardinality shortcuts agree with the materialised results by definition; with the membership theorems
they are the sizes of the mathematical results -/
theorem union_card (a b : List Nat) : union2by2Cardinality a b = (union2by2 a b).length := rfl
theorem inter_card (a b : List Nat) : intersection2by2Cardinality a b = (intersection2by2 a b).length := rfl

/-- non-vacuity -/
example : union2by2 [1, 5, 9] [2, 5, 10] = [1, 2, 5, 9, 10] ∧ intersection2by2 [1, 5, 9] [2, 5, 10] = [5] ∧
    difference [1, 5, 9] [2, 5, 10] = [1, 9] ∧ exclusiveUnion2by2 [1, 5, 9] [2, 5, 10] = [1, 2, 9, 10] := by
  simp [union2by2, intersection2by2, difference, exclusiveUnion2by2]

end RModel.ArrayC
