import RModel.Spec.FormatSpec
import RProofs.SerialLemmas
/-!
Bridge between the index-based accessors of the independent format reading (`Spec/FormatSpec.lean`, over `Array UInt8`)
and the list-cursor readers of the serializer/deserializer model (`Impl/Serial.lean`): reading at byte `i` of the array
is reading at the head of `b.toList.drop i`.
-/
namespace RModel.FormatSpec
open RModel RModel.Impl

theorem drop_drop' (L : List UInt8) (i k : Nat) : (L.drop i).drop k = L.drop (i + k) := by
  simp [List.drop_drop]

theorem u8_eq (b : Bytes) (i : Nat) : u8 b i = (b.toList.drop i).head?.map (·.toNat) := by
  simp [u8, List.head?_drop]

theorem u16_eq (b : Bytes) (i : Nat) : u16 b i = (rd16 (b.toList.drop i)).map (·.1) := by
  have h1 : b.toList.drop (i + 1) = (b.toList.drop i).drop 1 := by simp [List.drop_drop]
  simp only [u16, u8_eq, h1]
  rcases b.toList.drop i with _ | ⟨x, _ | ⟨y, t⟩⟩ <;> simp [rd16]

theorem u32_eq (b : Bytes) (i : Nat) : u32 b i = (rd32 (b.toList.drop i)).map (·.1) := by
  have h1 : b.toList.drop (i + 2) = (b.toList.drop i).drop 2 := by simp [List.drop_drop]
  simp only [u32, u16_eq, h1]
  rcases b.toList.drop i with _ | ⟨x, _ | ⟨y, _ | ⟨z, _ | ⟨w, t⟩⟩⟩⟩ <;> simp [rd16, rd32]
  omega

theorem words16_eq (b : Bytes) (i n : Nat) :
    words16 b i n = (takeN (2 * n) (b.toList.drop i)).map fun p => bytesTo16s p.1 := by
  induction n generalizing i with
  | zero => simp [words16, takeN, bytesTo16s]
  | succ n ih =>
    have h1 : b.toList.drop (i + 2) = (b.toList.drop i).drop 2 := by simp [List.drop_drop]
    simp only [words16, u16_eq, ih, h1]
    rcases b.toList.drop i with _ | ⟨x, _ | ⟨y, t⟩⟩
    · simp [rd16, takeN]
    · simp [rd16, takeN]; omega
    · have e : 2 * (n + 1) = 2 * n + 1 + 1 := by omega
      simp only [rd16, takeN, e, List.drop_succ_cons, List.drop_zero, List.length_cons, List.take_succ_cons]
      by_cases h : 2 * n ≤ t.length
      · simp [h, bytesTo16s]
      · simp [h]

theorem bytes8_eq (b : Bytes) (i n : Nat) :
    bytes8 b i n = (takeN n (b.toList.drop i)).map fun p => p.1.map (·.toNat) := by
  induction n generalizing i with
  | zero => simp [bytes8, takeN]
  | succ n ih =>
    have h1 : b.toList.drop (i + 1) = (b.toList.drop i).drop 1 := by simp [List.drop_drop]
    simp only [bytes8, u8_eq, ih, h1]
    rcases b.toList.drop i with _ | ⟨x, t⟩
    · simp [takeN]
    · simp only [takeN, List.drop_succ_cons, List.drop_zero, List.length_cons, List.take_succ_cons, List.head?_cons]
      by_cases h : n ≤ t.length
      · simp [h]
      · simp [h]

/-! ### the spec's helper functions are the model's (independently written, same equations) -/

theorem pairUp_eq (l : List Nat) : pairUp l = pairs16 l := by
  fun_induction pairUp l <;> simp_all [pairs16]

theorem strictlyIncreasing_eq (l : List Nat) : strictlyIncreasing l = strictInc l := by
  fun_induction strictlyIncreasing l <;> simp_all [strictInc]

theorem edges_eq (pos : Nat) (prev : Bool) (l : List Bool) : edges pos prev l = boundsOfBits pos prev l := by
  fun_induction edges pos prev l <;> simp_all [boundsOfBits]

theorem word_bits (w : BitVec 64) : ((le64 w.toNat).map (·.toNat)).flatMap byteBits = wordBits w := by
  have hw := w.isLt
  have hr8 : List.range 8 = [0,1,2,3,4,5,6,7] := by decide
  have hr64 : List.range 64 = [0,1,2,3,4,5,6,7,8,9,10,11,12,13,14,15,16,17,18,19,20,21,22,23,24,25,26,27,28,29,30,31,32,33,34,35,36,37,38,39,40,41,42,43,44,45,46,47,48,49,50,51,52,53,54,55,56,57,58,59,60,61,62,63] := by decide
  simp only [le64, le32, le16, byteBits, wordBits, hr8, hr64, List.map_cons, List.map_nil, List.cons_append, List.nil_append,
    List.flatMap_cons, List.flatMap_nil, List.append_nil, BitVec.getLsbD, Nat.testBit_eq_decide_div_mod_eq]
  simp only [List.cons.injEq, and_true, Nat.reducePow]
  repeat' apply And.intro
  all_goals
    rw [Bool.beq_eq_decide_eq, decide_eq_decide]
    simp only [UInt8.toNat_ofNat']
    omega

theorem words_bits (ws : List (BitVec 64)) :
    ((ws.flatMap fun w => le64 w.toNat).map (·.toNat)).flatMap byteBits = ws.flatMap wordBits := by
  induction ws with
  | nil => rfl
  | cons w t ih => simp only [List.flatMap_cons, List.map_append, List.flatMap_append, ih, word_bits]

theorem wordBits_count (w : BitVec 64) : (wordBits w).count true = popcount w := by
  simp [wordBits, popcount, List.count_eq_countP, List.countP_eq_length_filter, List.filter_map, Function.comp_def]

theorem wordsBits_count (ws : List (BitVec 64)) : (ws.flatMap wordBits).count true = (ws.map popcount).sum := by
  induction ws with
  | nil => rfl
  | cons w t ih => simp [List.flatMap_cons, List.count_append, ih, wordBits_count]

end RModel.FormatSpec
