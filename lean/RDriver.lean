import RModel
def main : IO Unit := IO.println "ok"
