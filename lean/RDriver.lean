import RModel
open RModel RModel.Driver

def stepFamilies (st : St) (cmd : List String) (got : String) : St × Verdict :=
  match step32 st cmd got with
  | some r => r
  | none =>
  match stepSer st cmd got with
  | some r => r
  | none =>
  match stepKern st cmd got with
  | some r => r
  | none =>
  match stepFrozen st cmd got with
  | some r => r
  | none =>
  match stepAlias st cmd got with
  | some r => r
  | none =>
  match step64 st cmd got with
  | some r => r
  | none =>
  match stepBsi st cmd got with
  | some r => r
  | none =>
  match stepIter st cmd got with
  | some r => r
  | none =>
  match stepAgg st cmd got with
  | some r => r
  | none =>
  match stepL2Rep st cmd got with
  | some r => r
  | none =>
  match stepL2Agg st cmd got with
  | some r => r
  | none =>
  match stepL2Mut st cmd got with
  | some r => r
  | none =>
  match stepL2Xform st cmd got with
  | some r => r
  | none =>
  match stepL2R64 st cmd got with
  | some r => r
  | none =>
  match stepL2R64Q st cmd got with
  | some r => r
  | none =>
  match stepL2Par st cmd got with
  | some r => r
  | none =>
  match stepL2Ser64 st cmd got with
  | some r => r
  | none =>
  match stepL2Q st cmd got with
  | some r => r
  | none =>
  match stepIter2 st cmd got with
  | some r => r
  | none =>
  match stepL2Cksum st cmd got with
  | some r => r
  | none =>
  match stepL2Bulk st cmd got with
  | some r => r
  | none =>
  match stepBsiBig st cmd got with
  | some r => r
  | none =>
  match stepByteIn st cmd got with
  | some r => r
  | none => (st, if got.startsWith "skip" then none else some "skip")

/-- plane-level BSI tracking runs alongside the command families: the extra checks use the state BEFORE the line -/
def stepAll (st : St) (cmd : List String) (got : String) : St × Verdict :=
  let extra := match checkBsiL2 st cmd got with
    | some m => some m
    | none => (match checkBsiBig st cmd got with
               | some m => some m
               | none => checkBsi32Ops st cmd got)
  let extraS64 := checkSer64L2 st cmd got
  let (l2it', extraIt) := shadowIterL2 st cmd got
  let (l2uit', l2it64', extraIt2) := shadowIter2 st cmd got
  let extraIt := match extraIt with | some m => some m | none => extraIt2
  let (st', v) := if cmd.head? == some "bplanes" then (st, (none : Verdict)) else stepFamilies st cmd got
  let st'' := trackBsiL2 st' cmd
  ({ st'' with l2it := l2it', l2uit := l2uit', l2it64 := l2it64' }, match v with | some m => some m | none => (match extra with | some m => some m | none => (match extraIt with | some m => some m | none => extraS64)))

def pureQueries : List String :=
  ["card", "empty", "has", "min", "max", "rank", "sel", "cir", "iwi", "eq", "toarr", "toexarr", "nv", "pv", "nav", "pav",
   "andcard", "orcard", "isect", "wf", "size", "ser", "rd", "wrfail", "wrfailall", "rdsplit", "trunc", "chkeq", "dump", "dig", "kern", "kernwf", "popcnt", "dense", "densechk", "safe", "zdetach", "zsame", "frz", "frzsmall", "frzwfail", "fchk", "fgc",
   "sermany64", "aggmany", "sched", "concdec", "concagg", "concagg64", "bplanes", "hasnext", "peek?", "peek!", "iterate", "values", "backward", "unset", "ranges", "l2lazy", "l2dense", "l2ser64", "l2q", "l2q2", "l2cksum", "l2toarr", "l2toex", "l2stats", "l2iterate", "l2seq", "l2ranges", "hasnext64", "peek64", "bcmpabs", "l2q64", "bytein"]

def aggOps : List String := ["fastor", "fastand", "heapor", "heapxor", "paror", "parand", "parheapor", "andany"]

partial def loop (script go : IO.FS.Stream) (st : St) (lineNo : Nat) (fails : Nat) : IO Nat := do
  let l ← script.getLine
  if l.isEmpty then return fails
  let g ← go.getLine
  let line := (l.dropEndWhile (fun c => c == '\n' || c == '\r')).toString
  let got := (g.dropEndWhile (fun c => c == '\n' || c == '\r')).toString
  if line.isEmpty || line.startsWith "#" then
    loop script go st (lineNo + 1) fails
  else
    let cmd := (line.splitOn " ").filter (· ≠ "")
    let (st', v) := stepAll st cmd got
    match v with
    | none => loop script go st' (lineNo + 1) fails
    | some exp =>
      let shown := if line.length > 200 then (line.take 200).toString ++ "..." else line
      IO.println s!"MISMATCH line={lineNo} cmd=[{shown}] expected=[{exp}] got=[{got}]"
      -- a disagreement on a pure query leaves the model state in step with the Go state: keep going;
      -- after any other disagreement the two states may have diverged: stop
      -- an aggregate whose RESULT digest agrees (the disagreement is about validity, operands or the caller's slice) leaves
      -- the model state in step as well
      let firstTok (s : String) : String := (s.splitOn " ").headD ""
      let inSync := aggOps.contains (cmd.headD "") && firstTok exp == firstTok got && !got.startsWith "panic"
      if pureQueries.contains (cmd.headD "") || inSync then loop script go st' (lineNo + 1) (fails + 1)
      else return fails + 1

def main (args : List String) : IO UInt32 := do
  match args with
  | [scriptPath, goPath] =>
    let hs ← IO.FS.Handle.mk scriptPath .read
    let hg ← IO.FS.Handle.mk goPath .read
    let fails ← loop (IO.FS.Stream.ofHandle hs) (IO.FS.Stream.ofHandle hg) {} 1 0
    IO.println s!"DONE fails={fails}"
    return (if fails == 0 then 0 else 1)
  | _ =>
    IO.eprintln "usage: rdriver <script> <go-output>"
    return 2
