import RModel
open RModel RModel.Driver

def stepAll (st : St) (cmd : List String) (got : String) : St × Verdict :=
  match step32 st cmd got with
  | some r => r
  | none =>
  match step64 st cmd got with
  | some r => r
  | none =>
  match stepBsi st cmd got with
  | some r => r
  | none => (st, if got.startsWith "skip" then none else some "skip")

partial def loop (script go : IO.FS.Stream) (st : St) (lineNo : Nat) (fails : Nat) : IO Nat := do
  let l ← script.getLine
  if l.isEmpty then return fails
  let g ← go.getLine
  let line := (l.dropEndWhile (fun c => c == '\n' || c == '\r')).toString
  let got := (g.dropEndWhile (fun c => c == '\n' || c == '\r')).toString
  if line.isEmpty || line.startsWith "#" then
    loop script go st (lineNo + 1) fails
  else
    let cmd := (line.splitOn " ").filter (· ≠ "")
    let (st', v) := stepAll st cmd got
    match v with
    | none => loop script go st' (lineNo + 1) fails
    | some exp =>
      let shown := if line.length > 200 then (line.take 200).toString ++ "..." else line
      IO.println s!"MISMATCH line={lineNo} cmd=[{shown}] expected=[{exp}] got=[{got}]"
      -- after the first mismatch the model state may have diverged: stop
      return fails + 1

def main (args : List String) : IO UInt32 := do
  match args with
  | [scriptPath, goPath] =>
    let hs ← IO.FS.Handle.mk scriptPath .read
    let hg ← IO.FS.Handle.mk goPath .read
    let fails ← loop (IO.FS.Stream.ofHandle hs) (IO.FS.Stream.ofHandle hg) {} 1 0
    IO.println s!"DONE fails={fails}"
    return (if fails == 0 then 0 else 1)
  | _ =>
    IO.eprintln "usage: rdriver <script> <go-output>"
    return 2
