import RModel.Spec.BSet
