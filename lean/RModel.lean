import RModel.Spec.BSet
import RModel.Driver.Util
import RModel.Driver.Core
